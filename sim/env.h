// Internal interface between the environment (env.cpp) and the executor (exec.cpp).
#pragma once
#include "sim.h"
#include <algorithm>

#if defined(__has_feature)
#if __has_feature(address_sanitizer)
#define POLYSIM_ASAN 1
#endif
#endif
#if defined(__SANITIZE_ADDRESS__)
#define POLYSIM_ASAN 1
#endif
#ifdef POLYSIM_ASAN
extern "C" void __asan_poison_memory_region(void const volatile* addr, size_t size);
extern "C" void __asan_unpoison_memory_region(void const volatile* addr, size_t size);
static inline void poison(const void* p, size_t n) { __asan_poison_memory_region(p, n); }
static inline void unpoison(const void* p, size_t n) { __asan_unpoison_memory_region(p, n); }
#else
static inline void poison(const void*, size_t) {}
static inline void unpoison(const void*, size_t) {}
#endif

namespace env {
enum { MAXT = 8, NGEN = 3 };
static const u8 STACK_PATTERN = 0x5A;
static const u64 DEFAULT_CLOCK = 1700000000ull;
static const u64 STEP_BUDGET = 5000000ull;

struct Gran { u8 r[MAXT]; u8 w[MAXT]; Gran() { memset(r, 0, sizeof r); memset(w, 0, sizeof w); } };

struct EnvState {
    int cur_gen = -1; unsigned cur_opt = 0;
    int fill = 0; u64 fill_seed = 0;
    int kdf_mode = 0;
    bool trampoline = false;
    bool monitor = false;
    bool in_inject = false;
    bool norm_full_len = false;
    bool norm_zero_on_invalid = false;
    bool errno_noise = false;            // dependencies return normally but leave errno set (EINTR retried, a failed probe, ...)
    bool norm_alias_unsafe = false;      // the normalisers clear their output before reading their input (no aliasing promised)
    bool syscall_faults = false;         // memory-locking calls of the library fail   // the normaliser reports an error (returns 0, writes nothing) for invalid UTF-8 (password operation only)
    bool misalign = false;          // allocator hands out blocks that are 8 but not 16 byte aligned
    bool lifo_reuse = false;        // allocator reuses the address of the block released last (same size)
    bool no_race_oracle = false;
    bool report_races = false, report_ownership = false;   // the monitor also runs (for access-chasing) in concurrent plans of checks that do not own oracles (R)/(O)    // the sources use atomics: oracle (R) has no happens-before model for them
    bool in_setup = false;
    std::vector<Block> blocks;
    OpRec* coord_rec = nullptr;
    u64 stray_events = 0;
    Stats stats;
    Violation mon_violation;
    std::unordered_map<uintptr_t, Gran> shadow;
    std::vector<BufReg> owned_bufs;      // preempt mode: caller buffers with the owning task in .id
    u64 shared_stores = 0;
    u64 mon_accesses = 0;
    u64 under_lock_accesses = 0;
    u64 errno_seq = 0;
    int last_freed = -1;
    u64 seam_count[EV_NKINDS] = {0};
    int task_blk_seq[MAXT + 1] = {0};
    Rng sched_rng{1};
    bool seam_chase = false, write_chase = false, yield_at_op = false;
};
extern EnvState E;
extern Task tasks[MAXT];
extern int ntasks;
extern __thread Task* tls_task;
extern u32 n_guards;
enum { GUARD_MAX = 1 << 16 };
extern u8 guard_hit[GUARD_MAX];
extern bool have_edges, have_monitor;

void start_tasks(int n);
void scan_readonly_mappings();
void clear_block_index();
int resume(Task* t);
void task_yield(Task* t, int why);
void boundary_tick(Task* t);
PtrInfo classify(const void* p, Task* t, OpRec* rec);
void make_deps(polyseed_dependency* d, int gen, unsigned opt);
void reset_run();
extern std::vector<void*>* inject_pages_p;
void nested_inject(int gen, unsigned opt);      // defined by the executor: polyseed_inject called from inside a dependency
void kdf_stream(const bytes& pw, const bytes& salt, u64 iter, u8* out, size_t n);
}

// Executor: drives the real library through a plan on task threads, records an address-free
// event log, and evaluates the oracles of the property under check after every operation.
#include "sim.h"
#include "env.h"
#include <sys/mman.h>
#include <unistd.h>
#include <time.h>

using namespace env;

namespace sim {

#ifndef POLYSIM_CFG
#define POLYSIM_CFG "unknown"
#endif
const char* BUILD_CFG = POLYSIM_CFG;
bool HAVE_EDGES = false, HAVE_MONITOR = false;
#ifdef POLYSIM_ASAN
bool HAVE_ASAN = true;
#else
bool HAVE_ASAN = false;
#endif

static std::vector<int> libmap;          // library language index -> snapshot index (-1 unknown)
static std::vector<const polyseed_lang*> liblangs;
static bool registry_matches = true;
static std::vector<void*> inject_pages;
static const size_t KEY_GUARD = 64, STR_GUARD = 64;

void init(int ntasks_max) {
    env::inject_pages_p = &inject_pages;
    start_tasks(ntasks_max);
    scan_readonly_mappings();
    int n = polyseed_get_num_langs();
    for (int i = 0; i < n; ++i) {
        const polyseed_lang* l = polyseed_get_lang(i);
        liblangs.push_back(l);
        int m = model::lang_by_name_en(polyseed_get_lang_name_en(l));
        libmap.push_back(m);
        if (m < 0) registry_matches = false;      // a language the snapshot does not know: automatic detection is not predicted
    }
    // the same set of languages in another order is fine: results are mapped by name
    if (n != (int)model::langs.size()) registry_matches = false;
    HAVE_EDGES = have_edges;
}
u32 num_guards() { return n_guards; }
u32 guards_hit() { u32 c = 0; for (u32 i = 0; i < GUARD_MAX; ++i) c += guard_hit[i]; return c; }

static int lang_index_of(const polyseed_lang* l) {
    for (size_t i = 0; i < liblangs.size(); ++i) if (liblangs[i] == l) return (int)i;
    return -1;
}

// The library is entered 16 KiB below the harness frame that parks afterwards, so that whatever the harness
// does after the call cannot overwrite (or add to) what the library left on the dead stack.
static __attribute__((noinline)) void call_with_pad(Task* t, const std::function<void()>& f) {
    volatile char pad[16384];
    pad[0] = 0; pad[sizeof pad - 1] = 0;
    t->entry_sp = (void*)&pad[0];
    f();
    asm volatile("" ::: "memory");
}

} namespace env {
std::vector<void*>* inject_pages_p = nullptr;
void nested_inject(int gen, unsigned opt) {
    size_t pg = (size_t)sysconf(_SC_PAGESIZE);
    u8* page = (u8*)mmap(nullptr, pg, PROT_READ | PROT_WRITE, MAP_PRIVATE | MAP_ANONYMOUS, -1, 0);
    if (inject_pages_p) inject_pages_p->push_back(page);
    polyseed_dependency* d = (polyseed_dependency*)(page + pg - sizeof(polyseed_dependency));
    make_deps(d, gen, opt & 7);
    E.cur_gen = gen % NGEN; E.cur_opt = opt & 7;
    bool was = E.in_inject; E.in_inject = true;
    polyseed_inject(d);
    E.in_inject = was;
    memset(page, 0xEE, pg);
    mprotect(page, pg, PROT_NONE);
}
} namespace sim {
static bool is_ctor(int k) { return k == OP_CREATE || k == OP_LOAD || k == OP_DECODE || k == OP_DECODEX; }
static bool needs_seed(int k) { return k == OP_STORE || k == OP_ENCODE || k == OP_CRYPT || k == OP_KEYGEN || k == OP_GETB || k == OP_GETF || k == OP_ISENC || k == OP_FREE; }

static polyseed_data* const SEED_SENTINEL = (polyseed_data*)(uintptr_t)0x5EED5EED5EEDull;
static const polyseed_lang* const LANG_SENTINEL = (const polyseed_lang*)(uintptr_t)0x1A461A461A46ull;

struct CallFlags { bool preempt; };

// Runs on the task thread.
static void exec_op(Task* t, OpRec& rec, bool preempt) {
    const Op& op = rec.op;
    int s = op.slot & 63;
    rec.task = t->id;
    if ((is_ctor(op.kind) && t->slots[s]) || (needs_seed(op.kind) && !t->slots[s]) || (E.cur_gen < 0 && op.kind != OP_INJECT && op.kind != OP_ENABLE && op.kind != OP_LANGQ && op.kind != OP_CONFIG)) {
        rec.skipped = true; rec.done = true;
        return;
    }
    polyseed_data* seed = (polyseed_data*)t->slots[s];
    int nl = (int)liblangs.size();
    if (rec.op.chain) {
        // the input is this task's own latest output
        if ((op.kind == OP_DECODE || op.kind == OP_DECODEX) && t->have_phrase) { rec.op.data = t->last_phrase; rec.op.b = t->last_phrase_coin; if (op.kind == OP_DECODEX) rec.op.a = t->last_phrase_lang; }
        else if (op.kind == OP_LOAD && t->have_store) rec.op.data = t->last_store;
        else { rec.skipped = true; rec.done = true; return; }
    }
    t->edges_call = 0;
    auto enter = [&](const std::function<void()>& f) {
        t->cur = &rec;
        call_with_pad(t, [&] { t->preemptible = preempt; f(); t->preemptible = false; });
        t->cur = nullptr;
        rec.edges = t->edges_call;
    };
    switch (op.kind) {
    case OP_CONFIG:
        E.fill = (int)(op.a % 4); E.fill_seed = op.b; E.kdf_mode = (int)((op.a >> 8) & 1);
#ifndef POLYSIM_LIB_ASSERTS
        E.norm_full_len = ((op.a >> 9) & 1) != 0;
#endif
        E.misalign = ((op.a >> 10) & 1) != 0;
        E.norm_zero_on_invalid = ((op.a >> 14) & 1) != 0;
        E.errno_noise = ((op.a >> 15) & 1) != 0;
        E.norm_alias_unsafe = ((op.a >> 16) & 1) != 0;
        E.syscall_faults = ((op.a >> 17) & 1) != 0;
        E.lifo_reuse = ((op.a >> 11) & 1) != 0;
        {   // the process environment is configuration too: the time zone must not matter
            static const char* TZS[4] = {nullptr, "JST-9", "EST5EDT", "NZST-12NZDT"};
            const char* tz = TZS[(op.a >> 12) & 3];
            if (tz) setenv("TZ", tz, 1); else unsetenv("TZ");
            tzset();
        }
        break;
    case OP_INJECT: {
        size_t pg = (size_t)sysconf(_SC_PAGESIZE);
        u8* page = (u8*)mmap(nullptr, pg, PROT_READ | PROT_WRITE, MAP_PRIVATE | MAP_ANONYMOUS, -1, 0);
        inject_pages.push_back(page);
        polyseed_dependency* d = (polyseed_dependency*)(page + pg - sizeof(polyseed_dependency));
        make_deps(d, (int)op.a, (unsigned)op.b & 7);
        E.cur_gen = (int)(op.a % NGEN); E.cur_opt = (unsigned)op.b & 7;
        E.in_inject = true;
        enter([&] { polyseed_inject(d); });
        E.in_inject = false;
        memset(page, 0xEE, pg);                 // the caller's struct is gone after the call
        mprotect(page, pg, PROT_NONE);
        break;
    }
    case OP_ENABLE:
        enter([&] { rec.ret = (u64)(long)polyseed_enable_features((unsigned)op.a); });
        break;
    case OP_CREATE: {
        polyseed_data** so = (polyseed_data**)malloc(sizeof(void*)); *so = SEED_SENTINEL;
        rec.bufs.push_back({(const u8*)so, sizeof(void*), BUF_SEEDOUT});
        enter([&] { rec.status = polyseed_create((unsigned)op.a, so); });
        if (*so != SEED_SENTINEL) { rec.produced = true; rec.seed_ptr = *so; }
        free(so);
        break;
    }
    case OP_LOAD: {
        u8* in = (u8*)malloc(32); memset(in, 0, 32); if (!op.data.empty()) memcpy(in, op.data.data(), std::min<size_t>(32, op.data.size()));
        u8 copy[32]; memcpy(copy, in, 32);
        polyseed_data** so = (polyseed_data**)malloc(sizeof(void*)); *so = SEED_SENTINEL;
        rec.bufs.push_back({in, 32, BUF_STORAGE}); rec.bufs.push_back({(const u8*)so, sizeof(void*), BUF_SEEDOUT});
        enter([&] { rec.status = polyseed_load(in, so); });
        if (memcmp(copy, in, 32)) rec.input_modified = true;
        if (*so != SEED_SENTINEL) { rec.produced = true; rec.seed_ptr = *so; }
        free(so); free(in);
        break;
    }
    case OP_STORE: {
        u8* out = (u8*)malloc(32 + KEY_GUARD); memset(out, 0xCC, 32 + KEY_GUARD);
        rec.bufs.push_back({out, 32, BUF_STORAGE});
        enter([&] { polyseed_store(seed, out); });
        rec.out.assign(out, out + 32);
        t->last_store = rec.out; t->have_store = true;
        for (size_t i = 32; i < 32 + KEY_GUARD; ++i) if (out[i] != 0xCC) rec.guard_broken = true;
        free(out);
        break;
    }
    case OP_ENCODE: {
        char* out = (char*)malloc(STRSZ + STR_GUARD); memset(out, 0xCC, STRSZ + STR_GUARD);
        rec.bufs.push_back({(const u8*)out, STRSZ, BUF_OUT});
        const polyseed_lang* l = liblangs[op.a % nl];
        enter([&] { rec.ret = polyseed_encode(seed, l, (polyseed_coin)(op.b & 2047), out); });
        size_t n = strnlen(out, STRSZ);
        rec.out.assign(out, out + n);
        t->last_phrase = rec.out; t->last_phrase_lang = op.a % nl; t->last_phrase_coin = op.b & 2047; t->have_phrase = true;
        if (n == STRSZ) rec.guard_broken = true;      // no terminator inside the caller's buffer
        for (size_t i = STRSZ; i < STRSZ + STR_GUARD; ++i) if ((u8)out[i] != 0xCC) rec.guard_broken = true;
        free(out);
        break;
    }
    case OP_DECODE: case OP_DECODEX: {
        size_t n = op.data.size();
        char* in = (char*)malloc(n + 1); if (n) memcpy(in, op.data.data(), n); in[n] = 0;
        polyseed_data** so = (polyseed_data**)malloc(sizeof(void*)); *so = SEED_SENTINEL;
        const polyseed_lang** lo = (const polyseed_lang**)malloc(sizeof(void*)); *lo = LANG_SENTINEL;
        rec.bufs.push_back({(const u8*)in, n + 1, BUF_IN}); rec.bufs.push_back({(const u8*)so, sizeof(void*), BUF_SEEDOUT});
        rec.bufs.push_back({(const u8*)lo, sizeof(void*), BUF_LANGOUT});
        if (op.kind == OP_DECODE) {
            bool nolang = (op.a & 1) != 0;
            enter([&] { rec.status = polyseed_decode(in, (polyseed_coin)(op.b & 2047), nolang ? nullptr : lo, so); });
            if (*lo != LANG_SENTINEL) rec.lang_out = lang_index_of(*lo);
        } else {
            const polyseed_lang* l = liblangs[op.a % nl];
            enter([&] { rec.status = polyseed_decode_explicit(in, (polyseed_coin)(op.b & 2047), l, so); });
        }
        if (strlen(in) != n || (n && memcmp(in, op.data.data(), n))) rec.input_modified = true;
        if (*so != SEED_SENTINEL) { rec.produced = true; rec.seed_ptr = *so; }
        free(lo); free(so); free(in);
        break;
    }
    case OP_CRYPT: {
        size_t n = op.data.size();
        char* in = (char*)malloc(n + 1); if (n) memcpy(in, op.data.data(), n); in[n] = 0;
        rec.bufs.push_back({(const u8*)in, n + 1, BUF_IN});
        enter([&] { polyseed_crypt(seed, in); });
        if (strlen(in) != n || (n && memcmp(in, op.data.data(), n))) rec.input_modified = true;
        free(in);
        break;
    }
    case OP_KEYGEN: {
        size_t n = keygen_buf(op.b), off = keygen_off(op.b), told = keygen_size(op.b);
        u8* base = (u8*)malloc(n + KEY_GUARD + 16); memset(base, 0x77, n + KEY_GUARD + 16);
        u8* key = base + 8 + off;                                  // malloc aligns to 16: offsets 1..7 are misaligned for every word size
        rec.bufs.push_back({key, n, BUF_KEY});
        t->watch_p = key; t->watch_n = n; t->watch_hits = 0; t->watch_armed = false;
        enter([&] { polyseed_keygen(seed, (polyseed_coin)(op.a & 2047), told, key); });
        t->watch_p = nullptr;
        rec.ret = t->watch_hits;
        rec.out.assign(key, key + n);
        for (size_t i = n; i < n + KEY_GUARD + 8 - off; ++i) if (key[i] != 0x77) rec.guard_broken = true;
        for (u8* q = base; q < key; ++q) if (*q != 0x77) rec.guard_broken = true;
        free(base);
        break;
    }
    case OP_GETB: enter([&] { rec.ret = polyseed_get_birthday(seed); }); break;
    case OP_GETF: enter([&] { rec.ret = polyseed_get_feature(seed, (unsigned)op.a); }); break;
    case OP_ISENC: enter([&] { rec.ret = (u64)(long)polyseed_is_encrypted(seed); }); break;
    case OP_FREE: enter([&] { polyseed_free(seed); }); t->slots[s] = nullptr; break;
    case OP_FREENULL: enter([&] { polyseed_free(nullptr); }); break;
    case OP_LANGQ: {
        const polyseed_lang* l = liblangs[op.a % nl];
        const char* a = nullptr; const char* b = nullptr;
        enter([&] { a = polyseed_get_lang_name_en(l); b = polyseed_get_lang_name(l); rec.ret = (u64)polyseed_get_num_langs(); });
        std::string o = std::string(a ? a : "?") + "|" + (b ? b : "?");
        rec.out.assign(o.begin(), o.end());
        break;
    }
    }
    if (is_ctor(op.kind) && rec.status == ST_OK && rec.produced) t->slots[s] = rec.seed_ptr;
    rec.done = true;
}

// ------------------------------------------------------------------------------------------------ checker
enum Aspect { A_GATE, A_STATUS, A_ENABLE_RET, A_GETF, A_FEATBITS, A_BIRTHDAY_CREATE, A_BIRTHDAY_KEEP, A_KDF_KEYGEN, A_KEYBUF,
              A_KDF_CRYPT, A_CRYPT_STATE, A_ISENC, A_PHRASE, A_ENCLEN, A_STORE, A_LANG_OUT, A_SECRET_CREATE, A_RAND19, A_ISOLATION,
              A_MEMSTATUS, A_PRODUCED, A_INPUT, A_GUARD, A_DEPS, A_DEPS_MEM, A_LEDGER, A_FREENULL, A_W1, A_W2, A_CANON, A_LANGQ, A_STRAY, A_NASPECTS };
static const char* ASPECT_NAMES[A_NASPECTS] = {"feature-gate", "status", "enable-return", "get-feature", "feature-bits", "birthday-at-create", "birthday-preserved",
    "keygen-kdf-inputs", "key-buffer", "crypt-kdf-inputs", "crypt-result", "is-encrypted", "phrase", "encode-length", "serialisation", "lang-out", "secret-from-randbytes",
    "randbytes-19", "seed-isolation", "memory-status", "seed-produced", "input-modified", "output-guard", "dependency-honoured", "allocator-dependency-honoured", "ledger", "free-null", "wipe-at-free",
    "stack-residue", "canonical-seed", "lang-query", "stray-seam-call"};

static bool owns(const std::string& prop, int a, bool crypt_related) {
    if (prop == "C13") return a != A_W1 && a != A_W2;
    if (prop == "C04") return a == A_KDF_KEYGEN || a == A_KEYBUF;
    if (prop == "C10") return a == A_GATE || a == A_ENABLE_RET || a == A_GETF || a == A_FEATBITS;
    if (prop == "C11") return a == A_BIRTHDAY_CREATE || a == A_BIRTHDAY_KEEP;
    if (prop == "C12") return a == A_KDF_CRYPT || a == A_CRYPT_STATE || a == A_ISENC ||
                              (crypt_related && (a == A_STATUS || a == A_GATE || a == A_STORE || a == A_PHRASE || a == A_CANON || a == A_FEATBITS || a == A_BIRTHDAY_KEEP || a == A_KDF_KEYGEN));
    if (prop == "C15") return a == A_LEDGER || a == A_MEMSTATUS || a == A_PRODUCED || a == A_FREENULL || a == A_DEPS_MEM;
    if (prop == "C16") return a == A_W1 || a == A_W2;
    if (prop == "C18") return a == A_DEPS || a == A_DEPS_MEM || a == A_RAND19 || a == A_SECRET_CREATE || a == A_BIRTHDAY_CREATE;
    return false;
}

struct Needle { bytes b; const char* what; };

struct Checker {
    std::string prop;
    Violation v;
    std::string foreign;           // a mismatch in an aspect the property under check does not own
    unsigned mask = 0;
    std::map<std::pair<int, int>, AbsSeed> seeds;
    std::map<std::pair<int, int>, std::vector<int>> seedblocks;
    std::set<std::string> crypt_images;
    Stats* st;
    bool crypt_related = false;
    std::map<int, AbsSeed> last_enc, last_sto; std::map<int, int> last_enc_lang;      // per task: the model seed behind the latest encode / store output
    bool have_pending = false; AbsSeed pending;      // the abstract seed a constructor's input denotes (kept if the library accepts it against the model's verdict)
    std::vector<Needle> needles;

    // Returns true if the caller should stop evaluating this operation. A mismatch in an aspect that the property
    // under check does not own is counted and the model is re-synchronised from the library afterwards (resync);
    // it can only occur on a tree that violates some other property, so it cannot cause an alarm on correct code.
    bool fail(int aspect, int op, const std::string& msg) {
        if (v.found) return true;
        if (owns(prop, aspect, crypt_related)) {
            v.found = true; v.prop = prop; v.oracle = "model"; v.cls = ASPECT_NAMES[aspect]; v.op = op; v.msg = msg;
            return true;
        }
        if (foreign.empty()) st->add(std::string("foreign_mismatch_") + ASPECT_NAMES[aspect]);
        foreign = ASPECT_NAMES[aspect];
        return true;
    }
    bool stop() const { return v.found || !foreign.empty(); }
    // after a foreign mismatch: take the library's own view of the slot so that the history can continue
    void resync(OpRec& rec, Task* t) {
        foreign.clear();
        auto key = std::make_pair(rec.task, rec.op.slot & 63);
        polyseed_data* p = (polyseed_data*)t->slots[rec.op.slot & 63];
        if (rec.op.kind == OP_ENABLE) mask = (unsigned)rec.op.a & 7;
        if (!p) { seeds.erase(key); return; }
        if (is_ctor(rec.op.kind) && rec.status == ST_OK && have_pending && !seeds.count(key)) seeds[key] = pending;
        // If the model knows which abstract seed this object should be (the history determines it), it keeps that: later
        // operations are then judged against the seed the history really leads to. Only without a prediction is the
        // library's own view adopted.
        if (!seeds.count(key)) {
            u8 st32[32]; polyseed_store(p, st32);
            AbsSeed got;
            if (model::parse(st32, got) == ST_OK) seeds[key] = got;
        }
        if (is_ctor(rec.op.kind) && rec.status == ST_OK && rec.produced) {
            std::vector<int> mine; for (auto& b : E.blocks) if (b.op == rec.idx && b.live) mine.push_back(b.id);
            seedblocks[key] = mine;
        }
    }

    static std::string ser(const AbsSeed& s) { u8 b[32]; model::serialise(s, b); return std::string((char*)b, 32); }
    bool is_crypt_image(const AbsSeed& s) { return crypt_images.count(ser(s)) > 0; }

    // observation calls: pure getters, made from the coordinator thread
    bool observe(OpRec& rec, polyseed_data* p, const AbsSeed& m, bool check_state) {
        OpRec obs; obs.idx = rec.idx; E.coord_rec = &obs;
        u8 st32[32]; memset(st32, 0xCC, 32);
        polyseed_store(p, st32);
        u64 b = polyseed_get_birthday(p);
        unsigned f = polyseed_get_feature(p, 7);
        int enc = polyseed_is_encrypted(p);
        E.coord_rec = nullptr;
        if (!obs.ev.empty()) st->add("dependency_calls_during_observation", obs.ev.size());     // a query may wipe a temporary of its own; that is not judged
        u8 exp[32]; model::serialise(m, exp);
        if (b != model::EPOCH + (u64)m.birthday * model::STEP)
            return fail(A_BIRTHDAY_KEEP, rec.idx, strf("polyseed_get_birthday=%llu, the seed's birthday is month %u = %llu", (unsigned long long)b, m.birthday, (unsigned long long)(model::EPOCH + (u64)m.birthday * model::STEP)));
        if (f != (m.features & 7)) return fail(A_FEATBITS, rec.idx, strf("polyseed_get_feature(7)=%u, the seed's user features are %u", f, m.features & 7));
        if ((enc != 0) != ((m.features & 16) != 0)) return fail(A_ISENC, rec.idx, strf("polyseed_is_encrypted=%d, the seed's encrypted flag is %u", enc, (m.features >> 4) & 1));
        if (check_state && memcmp(st32, exp, 32)) {
            int aspect = A_STORE;
            if (st32[8] != exp[8] || st32[9] != exp[9]) {
                unsigned got = st32[8] | st32[9] << 8, want = exp[8] | exp[9] << 8;
                aspect = ((got >> 10) != (want >> 10)) ? A_FEATBITS : A_BIRTHDAY_KEEP;
            }
            return fail(aspect, rec.idx, "polyseed_store gives " + hexs(st32, 32) + ", the model seed serialises to " + hexs(exp, 32));
        }
        return false;
    }

    void ledger(OpRec& rec, Task* t) {
        const Op& op = rec.op;
        auto key = std::make_pair(rec.task, op.slot & 63);
        for (auto& e : rec.ev) {
            if ((e.kind == EV_FREE || e.kind == EV_LIBC_FREE) && e.bad) { fail(A_LEDGER, rec.idx, "free received a " + e.name + " pointer: " + e.str()); return; }
            if (e.kind == EV_MEMZERO && e.bad) { fail(A_LEDGER, rec.idx, strf("the wipe function received NULL with length %llu (something that never came from the allocator)", (unsigned long long)e.n)); return; }
        }
        std::vector<int> leaked, foreignfree;
        for (auto& b : E.blocks) {
            if (b.op == rec.idx && b.live) leaked.push_back(b.id);
            if (b.freed_op == rec.idx && b.op != rec.idx) foreignfree.push_back(b.id);
        }
        bool ctor_ok = is_ctor(op.kind) && rec.status == ST_OK && rec.produced;
        if (ctor_ok) {
            PtrInfo pi = classify(rec.seed_ptr, t, nullptr);
            // the seed object may start anywhere inside a block (a header in front of it is the library's business)
            if (pi.cls != PC_BLOCK || !E.blocks[pi.id].live) { fail(A_LEDGER, rec.idx, "the returned seed does not lie in a live block of the allocator: " + pi.str()); return; }
            seedblocks[key] = leaked;
        } else if (!leaked.empty()) {
            fail(A_LEDGER, rec.idx, strf("%zu block(s) taken during this call are still live after it returned %s (first: blk%d, %zu bytes)", leaked.size(),
                rec.status >= 0 ? status_name(rec.status) : "void", leaked[0], E.blocks[leaked[0]].size));
            return;
        }
        if (op.kind == OP_FREE) {
            auto& sb = seedblocks[key];
            for (int id : sb) if (E.blocks[id].live) { fail(A_LEDGER, rec.idx, strf("polyseed_free left blk%d of the seed allocated", id)); return; }
            for (int id : foreignfree) if (std::find(sb.begin(), sb.end(), id) == sb.end()) { fail(A_LEDGER, rec.idx, strf("polyseed_free released blk%d, which belongs to another seed", id)); return; }
            seedblocks.erase(key);
        } else if (!foreignfree.empty()) {
            fail(A_LEDGER, rec.idx, strf("blk%d, which belongs to a live seed, was released during %s", foreignfree[0], OP_NAMES[op.kind]));
            return;
        }
        // W1: every block reaches free zeroed, and zeroed through the injected wipe function
        for (auto& b : E.blocks) if (b.freed_op == rec.idx) {
            if (!b.zero_at_free) { fail(A_W1, rec.idx, strf("blk%d (%zu bytes) was handed to free with non-zero contents", b.id, b.size)); return; }
            if (!b.wiped_by_memzero) { fail(A_W1, rec.idx, strf("blk%d (%zu bytes) was zero at free but not wiped through the injected memzero of the current injection", b.id, b.size)); return; }
        }
    }

    void add_needles_seed(const AbsSeed& s) {
        needles.push_back({bytes(s.secret, s.secret + 19), "secret bytes"});
        // the same bytes in reverse order: what a big-endian load into wider integers leaves behind on this machine
        needles.push_back({bytes(std::reverse_iterator<const u8*>(s.secret + 19), std::reverse_iterator<const u8*>(s.secret)), "secret bytes (byte-reversed, as left by big-endian loads into wider integers)"});
        unsigned c[16]; model::pack(s, c);
        add_needles_idx(c);
    }
    void add_needles_idx(const unsigned c[16]) { add_needles_idx_n(c, 16); }
    void add_needles_idx_n(const unsigned* c, size_t cnt) {
        bytes b64, b32, b16;
        for (size_t i = 0; i < cnt; ++i) {
            for (int k = 0; k < 8; ++k) b64.push_back((u8)((u64)c[i] >> (8 * k)));
            for (int k = 0; k < 4; ++k) b32.push_back((u8)(c[i] >> (8 * k)));
            for (int k = 0; k < 2; ++k) b16.push_back((u8)(c[i] >> (8 * k)));
        }
        needles.push_back({b64, "word indices (64-bit)"}); needles.push_back({b32, "word indices (32-bit)"}); needles.push_back({b16, "word indices (16-bit)"});
    }
    void add_needles_text(const std::string& s, const char* what) { needles.push_back({bytes(s.begin(), s.end()), what}); }

    void after(OpRec& rec, Task* t) {
        const Op& op = rec.op;
        needles.clear();
        crypt_related = false;
        have_pending = false;
        if (rec.skipped) return;
        auto key = std::make_pair(rec.task, op.slot & 63);
        auto it = seeds.find(key);
        bool have = it != seeds.end();
        if (have && is_crypt_image(it->second)) crypt_related = true;
        // ---- checks that apply to every operation
        bool soft = false;      // a foreign mismatch among the generic checks does not end the evaluation of this operation
        for (auto& e : rec.ev) {
            if (soft) break;
            if (e.stale) {
                std::string why = e.gen < 0 ? "libc was used although the corresponding dependency is injected" :
                    (e.gen != E.cur_gen ? strf("a function of injection generation %d was called, the current one is %d", e.gen, E.cur_gen) : "an optional dependency that was NULL at the latest injection was called (stale pointer)");
                bool mem = e.kind == EV_ALLOC || e.kind == EV_FREE || e.kind == EV_LIBC_MALLOC || e.kind == EV_LIBC_FREE;
                fail(mem ? A_DEPS_MEM : A_DEPS, rec.idx, why + ": " + e.str()); if (v.found) return; soft = true; continue;
            }
            if (e.kind == EV_FORBIDDEN) { fail(A_DEPS, rec.idx, "the library consulted " + e.name + "()"); if (v.found) return; soft = true; }
        }
        if (E.stray_events) { fail(A_STRAY, rec.idx, "dependency called outside any operation"); return; }
        if (rec.input_modified) { fail(A_INPUT, rec.idx, "the caller's input buffer was modified"); return; }
        if (rec.guard_broken) { fail(op.kind == OP_KEYGEN ? A_KEYBUF : A_GUARD, rec.idx, "bytes outside the caller's output buffer were written, or the output is not terminated"); return; }
        if (rec.status >= 0) {
            if (rec.alloc_failed && rec.status != ST_MEMORY) { fail(A_MEMSTATUS, rec.idx, strf("the allocator returned NULL during the call but the status is %s", status_name(rec.status))); return; }
            // (what *seed_out holds after a failed call is unspecified - the header says so - and is not judged; that no block
            // stays allocated is the ledger's business)
            if (rec.status == ST_OK && is_ctor(op.kind) && (!rec.produced || rec.seed_ptr == nullptr)) { fail(A_PRODUCED, rec.idx, "status OK but no seed was returned"); return; }
        }
        ledger(rec, t);
        if (v.found) return;
        std::string generic_foreign = foreign; foreign.clear();
        struct Restore { std::string& f; std::string g; ~Restore() { if (f.empty()) f = g; } } restore{foreign, generic_foreign};
        // a model seed may be missing after an earlier foreign mismatch: nothing can be predicted for this operation then
        if (needs_seed(op.kind) && !have) { foreign = "untracked-seed"; return; }

        auto expect_status = [&](int exp) -> bool {
            if (rec.alloc_failed) return rec.status == ST_MEMORY;    // already checked above
            if (rec.status == exp) return true;
            bool gate = (rec.status == ST_OK && exp == ST_UNSUPPORTED) || (rec.status == ST_UNSUPPORTED && exp == ST_OK);
            fail(gate ? A_GATE : A_STATUS, rec.idx, strf("status %s, expected %s (enabled feature mask %u)", status_name(rec.status), status_name(exp), mask));
            return false;
        };

        switch (op.kind) {
        case OP_CONFIG: case OP_INJECT: break;
        case OP_ENABLE: {
            unsigned m = (unsigned)op.a & 7;
            if (rec.ret != (u64)__builtin_popcount(m)) { fail(A_ENABLE_RET, rec.idx, strf("polyseed_enable_features(%llu) returned %lld, expected %d", (unsigned long long)op.a, (long long)rec.ret, __builtin_popcount(m))); return; }
            mask = m;
            break;
        }
        case OP_CREATE: {
            unsigned f = (unsigned)op.a & 7;
            int exp = model::supported(f, mask) ? ST_OK : ST_UNSUPPORTED;
            if (!expect_status(exp)) return;
            if (rec.status != ST_OK) break;
            bytes delivered; u64 requested = 0; std::vector<u64> readings;
            for (auto& e : rec.ev) {
                if (e.kind == EV_RAND) { requested += e.n; delivered.insert(delivered.end(), e.a.begin(), e.a.end()); }
                if ((e.kind == EV_TIME || e.kind == EV_LIBC_TIME) && !e.stale) readings.push_back(e.reading);     // only the clock of the current injection counts
            }
            if (requested != 19) { fail(A_RAND19, rec.idx, strf("polyseed_create took %llu bytes from the random source, expected 19", (unsigned long long)requested)); return; }
            u8 st32[32]; polyseed_store((polyseed_data*)rec.seed_ptr, st32);
            AbsSeed got;
            int pr = model::parse(st32, got);
            if (pr != ST_OK) { fail(A_CANON, rec.idx, "the created seed does not serialise to a valid image: " + hexs(st32, 32)); return; }
            AbsSeed want = got;
            memcpy(want.secret, delivered.data(), 19); want.secret[18] &= 0x3F;
            if (memcmp(want.secret, got.secret, 19)) { fail(A_SECRET_CREATE, rec.idx, "secret " + hexs(got.secret, 19) + " is not the random bytes delivered " + hexs(delivered) + " (top two bits of the last byte dropped)"); return; }
            if (got.features != f) { fail(A_FEATBITS, rec.idx, strf("created seed carries features %u, requested %llu -> %u", got.features, (unsigned long long)op.a, f)); return; }
            if (readings.empty()) { fail(A_BIRTHDAY_CREATE, rec.idx, "polyseed_create did not read the clock of the current injection"); return; }
            bool ok = false;
            for (u64 r : readings) if (model::birthday_explained(r, got.birthday)) ok = true;
            if (!ok) { fail(A_BIRTHDAY_CREATE, rec.idx, strf("birthday month %u (=%llu) is not explained by the clock reading %llu", got.birthday, (unsigned long long)(model::EPOCH + got.birthday * model::STEP), (unsigned long long)readings[0])); return; }
            seeds[key] = got;
            observe(rec, (polyseed_data*)rec.seed_ptr, got, true);
            add_needles_seed(got);
            break;
        }
        case OP_LOAD: {
            u8 in[32]; memset(in, 0, 32); if (!op.data.empty()) memcpy(in, op.data.data(), std::min<size_t>(32, op.data.size()));
            AbsSeed m; int exp = model::parse(in, m);
            if (op.chain && last_sto.count(rec.task)) { exp = ST_OK; m = last_sto[rec.task]; }     // an image written by polyseed_store must load, and to the seed that was stored
            if (exp == ST_OK || exp == ST_CHECKSUM) add_needles_seed(m);
            if (exp == ST_OK && is_crypt_image(m)) crypt_related = true;
            if (exp == ST_OK) { have_pending = true; pending = m; }
            if (exp == ST_OK && !model::supported(m.features, mask)) exp = ST_UNSUPPORTED;
            if (!expect_status(exp)) return;
            if (rec.status != ST_OK) break;
            seeds[key] = m;
            observe(rec, (polyseed_data*)rec.seed_ptr, m, true);
            break;
        }
        case OP_DECODE: case OP_DECODEX: {
            std::string phrase(op.data.begin(), op.data.end());
            add_needles_text(phrase, "phrase text");
            std::string norm = model::lib_normalise(phrase);
            if (norm != phrase) add_needles_text(norm, "normalised phrase text");
            { std::string lower = norm; bool ch = false; for (auto& c : lower) if (c >= 'A' && c <= 'Z') { c = (char)(c + 32); ch = true; } if (ch) add_needles_text(lower, "phrase text (lower-cased)"); }
            int li = -1;
            if (op.kind == OP_DECODEX) { li = libmap[op.a % libmap.size()]; if (li < 0) { st->add("unpredicted_unknown_language"); goto unpredicted; } }
            else if (!registry_matches) { st->add("unpredicted_registry_changed"); goto unpredicted; }
            {
                model::Decoded d = model::decode(phrase, (unsigned)op.b & 2047, li);
                if (op.chain && last_enc.count(rec.task) && d.status != ST_MULT_LANG) {
                    // a phrase written by polyseed_encode must decode, and to the seed that was encoded (automatic detection may
                    // legitimately answer 'multiple languages' when every word is shared)
                    d.status = ST_OK; d.seed = last_enc[rec.task]; d.lang = last_enc_lang[rec.task]; d.have_idx = false;
                }
                for (auto& pv : d.partial) add_needles_idx_n(pv.data(), pv.size());
                if (d.have_idx) { add_needles_idx(d.idx); unsigned c2[16]; memcpy(c2, d.idx, sizeof c2); c2[1] ^= (unsigned)op.b & 2047; add_needles_idx(c2); }
                int exp = d.status;
                if (exp == ST_OK) { add_needles_seed(d.seed); if (is_crypt_image(d.seed)) crypt_related = true; have_pending = true; pending = d.seed; }
                if (exp == ST_OK && !model::supported(d.seed.features, mask)) exp = ST_UNSUPPORTED;
                if (!expect_status(exp)) return;
                if (rec.status != ST_OK) break;
                if (op.kind == OP_DECODE && !(op.a & 1)) {
                    int got = rec.lang_out >= 0 ? libmap[rec.lang_out] : rec.lang_out;
                    if (got != d.lang) { fail(A_LANG_OUT, rec.idx, strf("detected language %d, expected %d (%s)", got, d.lang, model::langs[d.lang].name_en.c_str())); return; }
                }
                if (op.kind == OP_DECODE && (op.a & 1) && rec.lang_out != -2) { fail(A_LANG_OUT, rec.idx, "lang_out was NULL but something was written"); return; }
                seeds[key] = d.seed;
                observe(rec, (polyseed_data*)rec.seed_ptr, d.seed, true);
            }
            break;
        unpredicted:
            if (rec.status == ST_OK) {
                // adopt what the library produced (no prediction possible), so that the history can go on
                u8 st32[32]; polyseed_store((polyseed_data*)rec.seed_ptr, st32);
                AbsSeed got; if (model::parse(st32, got) != ST_OK) { fail(A_CANON, rec.idx, "decoded seed does not serialise to a valid image"); return; }
                seeds[key] = got;
            }
            break;
        }
        case OP_STORE: {
            add_needles_seed(it->second);
            last_sto[rec.task] = it->second;
            u8 exp[32]; model::serialise(it->second, exp);
            if (rec.out.size() != 32 || memcmp(rec.out.data(), exp, 32)) {
                int aspect = A_STORE;
                if (rec.out.size() == 32 && (rec.out[8] != exp[8] || rec.out[9] != exp[9])) aspect = (((rec.out[8] | rec.out[9] << 8) >> 10) != ((exp[8] | exp[9] << 8) >> 10)) ? A_FEATBITS : A_BIRTHDAY_KEEP;
                fail(aspect, rec.idx, "polyseed_store wrote " + hexs(rec.out) + ", expected " + hexs(exp, 32)); return;
            }
            break;
        }
        case OP_ENCODE: {
            int li = libmap[op.a % libmap.size()];
            add_needles_seed(it->second);
            if (li < 0) { st->add("unpredicted_unknown_language"); last_enc.erase(rec.task); break; }
            last_enc[rec.task] = it->second; last_enc_lang[rec.task] = li;
            unsigned idx[16];
            std::string nf = model::phrase_nfkd(it->second, li, (unsigned)op.b & 2047, idx);
            add_needles_idx(idx); add_needles_text(nf, "phrase text (decomposed)");
            std::string exp = model::phrase_out(it->second, li, (unsigned)op.b & 2047);
            if (exp != nf) add_needles_text(exp, "phrase text (composed)");
            std::string got(rec.out.begin(), rec.out.end());
            if (got != exp) { fail(A_PHRASE, rec.idx, strf("polyseed_encode(%s, coin %llu) wrote \"%s\", expected \"%s\"", model::langs[li].name_en.c_str(), (unsigned long long)(op.b & 2047), got.c_str(), exp.c_str())); return; }
            if (rec.ret != exp.size()) { fail(A_ENCLEN, rec.idx, strf("polyseed_encode returned %llu, the phrase is %zu bytes long", (unsigned long long)rec.ret, exp.size())); return; }
            break;
        }
        case OP_CRYPT: {
            crypt_related = true;
            std::string pwd(op.data.begin(), op.data.end());
            std::string norm = model::lib_normalise(pwd);
            add_needles_seed(it->second);
            add_needles_text(pwd, "password"); if (norm != pwd) add_needles_text(norm, "normalised password");
            const SeamEvent* k = nullptr; int nk = 0;
            for (auto& e : rec.ev) if (e.kind == EV_KDF) { k = &e; ++nk; }
            if (nk != 1) { fail(A_KDF_CRYPT, rec.idx, strf("polyseed_crypt called the KDF %d times, expected once", nk)); return; }
            bool pw_valid = true; model::nfkd_raw(pwd, &pw_valid);
            if (!pw_valid) st->add("unpredicted_invalid_utf8_password");     // what reaches the KDF for a password that is not UTF-8 is not specified
            else if (k->reading != norm.size() || k->a != bytes(norm.begin(), norm.end())) {
                fail(A_KDF_CRYPT, rec.idx, strf("KDF password is %s (length %llu), expected NFKD(password) without terminator = %s (length %zu)", hexs(k->a).c_str(), (unsigned long long)k->reading, hexs(norm).c_str(), norm.size())); return; }
            if (k->b != bytes(model::CRYPT_SALT, model::CRYPT_SALT + 16) || k->name != "saltlen=16") { fail(A_KDF_CRYPT, rec.idx, "KDF salt is " + hexs(k->b) + " (" + k->name + "), expected " + hexs(model::CRYPT_SALT, 16)); return; }
            if (k->n != 10000) { fail(A_KDF_CRYPT, rec.idx, strf("KDF iterations %llu, expected 10000", (unsigned long long)k->n)); return; }
            if (k->keylen != 32) { fail(A_KDF_CRYPT, rec.idx, strf("KDF output length %llu, expected 32", (unsigned long long)k->keylen)); return; }
            if (k->p.cls != PC_STACK) { /* where the mask lives is the library's business */ }
            needles.push_back({k->out, "encryption mask"});
            AbsSeed m = it->second;
            u8 mk[32]; memcpy(mk, k->out.data(), 32);
            model::apply_mask(m, mk);
            crypt_images.insert(ser(it->second));
            crypt_images.insert(ser(m));
            it->second = m;
            add_needles_seed(m);
            {
                OpRec dummy = rec;
                // result state
                u8 st32[32]; polyseed_store((polyseed_data*)t->slots[op.slot & 63], st32);
                u8 exp[32]; model::serialise(m, exp);
                if (memcmp(st32, exp, 32)) { fail(A_CRYPT_STATE, rec.idx, "after polyseed_crypt the seed serialises to " + hexs(st32, 32) + ", expected " + hexs(exp, 32)); return; }
            }
            observe(rec, (polyseed_data*)t->slots[op.slot & 63], m, true);
            break;
        }
        case OP_KEYGEN: {
            add_needles_seed(it->second);
            const SeamEvent* k = nullptr; int nk = 0;
            for (auto& e : rec.ev) if (e.kind == EV_KDF) { k = &e; ++nk; }
            if (nk != 1) { fail(A_KDF_KEYGEN, rec.idx, strf("polyseed_keygen called the KDF %d times, expected exactly once", nk)); return; }
            u8 pw[32], salt[32]; model::keygen_inputs(it->second, (unsigned)op.a & 2047, pw, salt);
            size_t ksz = keygen_size(op.b);
            if (k->reading != 32 || k->a != bytes(pw, pw + 32)) { fail(A_KDF_KEYGEN, rec.idx, strf("KDF password %s (length %llu), expected the 19 secret bytes zero-padded to 32: %s", hexs(k->a).c_str(), (unsigned long long)k->reading, hexs(pw, 32).c_str())); return; }
            if (k->name != "saltlen=32" || k->b != bytes(salt, salt + 32)) { fail(A_KDF_KEYGEN, rec.idx, "KDF salt " + hexs(k->b) + " (" + k->name + "), expected " + hexs(salt, 32)); return; }
            if (k->n != 10000) { fail(A_KDF_KEYGEN, rec.idx, strf("KDF iterations %llu, expected 10000", (unsigned long long)k->n)); return; }
            if (k->keylen != ksz) { fail(A_KDF_KEYGEN, rec.idx, strf("KDF key length %llu, the caller asked for %zu", (unsigned long long)k->keylen, ksz)); return; }
            if (k->p.cls != PC_BUF || k->p.id != BUF_KEY || k->p.off != 0) { fail(A_KDF_KEYGEN, rec.idx, "KDF key pointer is " + k->p.str() + ", not the caller's key buffer"); return; }
            if (rec.out != k->out) { fail(A_KEYBUF, rec.idx, "the key buffer does not hold what the KDF wrote (rewritten after the call)"); return; }
            if (rec.ret != 0) { fail(A_KEYBUF, rec.idx, strf("the library itself accessed the caller's key buffer (%llu instrumented accesses)", (unsigned long long)rec.ret)); return; }
            break;
        }
        case OP_GETB:
            if (rec.ret != model::EPOCH + (u64)it->second.birthday * model::STEP) { fail(A_BIRTHDAY_KEEP, rec.idx, strf("polyseed_get_birthday=%llu, expected month %u", (unsigned long long)rec.ret, it->second.birthday)); return; }
            break;
        case OP_GETF:
            if (rec.ret != (it->second.features & (unsigned)op.a & 7)) { fail(A_GETF, rec.idx, strf("polyseed_get_feature(mask %llu)=%llu, seed features %u", (unsigned long long)op.a, (unsigned long long)rec.ret, it->second.features)); return; }
            break;
        case OP_ISENC:
            if ((rec.ret != 0) != ((it->second.features & 16) != 0) || rec.ret > 1) { fail(A_ISENC, rec.idx, strf("polyseed_is_encrypted=%llu, seed features %u", (unsigned long long)rec.ret, it->second.features)); return; }
            break;
        case OP_FREE:
            add_needles_seed(it->second);
            seeds.erase(key);
            break;
        case OP_FREENULL:
            if (!rec.ev.empty()) { fail(A_FREENULL, rec.idx, "polyseed_free(NULL) called a dependency: " + rec.ev[0].str()); return; }
            break;
        case OP_LANGQ:
            // (names of languages are not part of any claimed property: a corrected native name is no alarm; a renamed
            // English name simply makes the language unknown to the snapshot, i.e. unpredicted)
            if (rec.ret != model::langs.size()) st->add("registry_size_differs");
            break;
        }
        if (stop()) return;
        // isolation: no other live seed of any task changed
        if (prop == "C13") {
            for (auto& kv : seeds) {
                if (kv.first == key) continue;
                polyseed_data* p = (polyseed_data*)tasks[kv.first.first].slots[kv.first.second];
                if (!p) continue;
                u8 st32[32]; polyseed_store(p, st32);
                u8 exp[32]; model::serialise(kv.second, exp);
                if (memcmp(st32, exp, 32)) { fail(A_ISOLATION, rec.idx, strf("seed in slot %d of task %d changed although the operation did not involve it: %s, expected %s", kv.first.second, kv.first.first, hexs(st32, 32).c_str(), hexs(exp, 32).c_str())); return; }
            }
        }
    }
};

// ------------------------------------------------------------------------------------------------ W2
static bool low_entropy(const u8* p, size_t n) {
    bool seen[256] = {false}; int d = 0;
    for (size_t i = 0; i < n; ++i) if (!seen[p[i]]) { seen[p[i]] = true; ++d; }
    return d < 5;
}
// searches [p, hi) for the needles; returns a description or ""
static std::string scan_region(const u8* p, const u8* hi, const std::vector<Needle>& needles, const char* where) {
    for (auto& nd : needles) {
        size_t win; size_t step = 1;
        bool idx = false;
        if (!strncmp(nd.what, "word indices (64", 16)) { win = 24; step = 8; idx = true; }
        else if (!strncmp(nd.what, "word indices (32", 16)) { win = 12; step = 4; idx = true; }
        else if (!strncmp(nd.what, "word indices (16", 16)) { win = 8; step = 2; idx = true; }
        else if (strstr(nd.what, "phrase")) win = 12;
        else win = 8;
        if (nd.b.size() < win) continue;
        for (size_t o = 0; o + win <= nd.b.size(); o += step) {
            const u8* w = nd.b.data() + o;
            if (idx) {
                // three (four) consecutive indices, all distinct and not tiny, so that counters and constants cannot match
                size_t k = win / (step); unsigned vals[4]; bool okv = true;
                for (size_t i = 0; i < k; ++i) { vals[i] = w[i * step] | w[i * step + 1] << 8; if (vals[i] < 32) okv = false; for (size_t j = 0; j < i; ++j) if (vals[j] == vals[i]) okv = false; }
                if (!okv) continue;
            } else if (low_entropy(w, win)) continue;
            const void* m = memmem(p, hi - p, w, win);
            if (m) return strf("%s: %zu bytes at offset %zu of the value (%s) found %s, %ld bytes below its upper end", nd.what, win, o, hexs(w, win).c_str(), where, (long)(hi - (const u8*)m));
        }
    }
    return "";
}
// scans the dead part of the task's stack for the needles; returns a description or ""
static std::string scan_stack(Task* t, const std::vector<Needle>& needles, u64* scanned) {
    u8* hi = (u8*)t->entry_sp;
    u8* lo = t->stack_lo;
    if (!hi || hi <= lo) return "";
    // find the extent the call touched: first address (from the bottom) that no longer holds the pattern
    u8* p = lo;
    while (p < hi && *p == STACK_PATTERN) ++p;
    if (p > lo + 64) p -= 64;
    *scanned = hi - p;
    std::string found = scan_region(p, hi, needles, "on the dead stack below the library's entry frame");
    memset(p, STACK_PATTERN, hi - p);
    return found;
}

// W3: the library's own writable static data (its .data/.bss sections are renamed at build time so that the linker
// provides their bounds). A static scratch buffer is a temporary too.
extern "C" { extern char __start_polydata[] __attribute__((weak)); extern char __stop_polydata[] __attribute__((weak));
             extern char __start_polybss[] __attribute__((weak)); extern char __stop_polybss[] __attribute__((weak)); }
static std::string scan_region(const u8* p, const u8* hi, const std::vector<Needle>& needles, const char* where);
static std::string scan_statics(const std::vector<Needle>& needles, u64* scanned) {
    std::string f;
    if (__start_polydata && __stop_polydata > __start_polydata) { *scanned += __stop_polydata - __start_polydata; f = scan_region((const u8*)__start_polydata, (const u8*)__stop_polydata, needles, "in the library's static data"); }
    if (f.empty() && __start_polybss && __stop_polybss > __start_polybss) { *scanned += __stop_polybss - __start_polybss; f = scan_region((const u8*)__start_polybss, (const u8*)__stop_polybss, needles, "in the library's static (zero-initialised) data"); }
    return f;
}

// ------------------------------------------------------------------------------------------------ runs
static void cleanup_pages() {
    size_t pg = (size_t)sysconf(_SC_PAGESIZE);
    for (void* p : inject_pages) munmap(p, pg);
    inject_pages.clear();
}

struct LogSink {
    RunResult& r; bool keep; u64 h = 0xcbf29ce484222325ull;
    void line(const std::string& s) { h = fnv1a(s, h); h = fnv1a("\n", 1, h); if (keep) r.log.push_back(s); }
};

static void run_on_task(Task* t, const std::function<void()>& job, RunResult& r, int opidx) {
    t->job = job;
    int st = resume(t);
    if (st == TS_BUDGET && !r.v.found) {
        r.v.found = true; r.v.oracle = "liveness"; r.v.cls = "step-budget"; r.v.op = opidx;
        r.v.msg = strf("the call did not return within %llu basic-block edges", (unsigned long long)STEP_BUDGET);
    }
}

static RunResult run_ops(const Plan& p, const RunOpts& o) {
    RunResult r;
    LogSink log{r, o.keep_log};
    Checker ck; ck.prop = p.prop; ck.st = &r.st;
    E.trampoline = false;
    std::vector<Op> ops = p.ops;
    size_t nplan = ops.size();
    for (size_t i = 0;; ++i) {
        if (i == ops.size()) {
            if (i > nplan + 600) break;
            // teardown: release every seed that is still live (checked like any other operation)
            bool any = false;
            for (int ti = 0; ti < ntasks && !any; ++ti) for (int s = 0; s < 64 && !any; ++s) if (tasks[ti].slots[s]) {
                Op f; f.kind = OP_FREE; f.task = ti; f.slot = s; ops.push_back(f); any = true;
            }
            if (!any) break;
        }
        OpRec rec; rec.idx = (int)i; rec.op = ops[i];
        Task* t = &tasks[rec.op.task % ntasks];
        rec.op.task = t->id;
        if (o.fill_override >= 0 && rec.op.kind == OP_CONFIG) rec.op.a = (rec.op.a & ~0xFFull) | (u64)o.fill_override;
        run_on_task(t, [&] { exec_op(t, rec, false); }, r, (int)i);
        if (r.v.found) { r.v.prop = p.prop; log.line(rec.str() + " [did not return]"); break; }
        log.line(rec.op.kind == OP_CONFIG ? strf("#%d config", (int)i) : rec.str());
        r.ops_run++;
        if (!rec.skipped) { r.st.add(std::string("op_") + OP_NAMES[rec.op.kind]); if (rec.status >= 0) r.st.add(strf("status_%s_%s", OP_NAMES[rec.op.kind], status_name(rec.status))); }
        else r.st.add("op_skipped");
        ck.after(rec, t);
        if (ck.v.found) { r.v = ck.v; break; }
        if (!ck.foreign.empty()) { r.st.add("foreign_mismatch_resyncs"); ck.resync(rec, t); }
        if (o.w2 && !rec.skipped && rec.op.kind != OP_INJECT && rec.op.kind != OP_CONFIG) {
            u64 scanned = 0;
            std::string f = scan_stack(t, ck.needles, &scanned);
            r.st.add("w2_scans"); r.st.add("w2_bytes_scanned", scanned);
            if (f.empty()) { u64 sb = 0; f = scan_statics(ck.needles, &sb); r.st.add("w3_static_bytes_scanned", sb); }
            r.st.add(strf("w2_exit_%s_%s", OP_NAMES[rec.op.kind], rec.status >= 0 ? status_name(rec.status) : "void"));
            if (!f.empty() && owns(p.prop, A_W2, false)) {
                r.v.found = true; r.v.prop = p.prop; r.v.oracle = "W2"; r.v.cls = f.find("static") != std::string::npos ? "static-residue" : "stack-residue"; r.v.op = (int)i;
                r.v.msg = strf("after %s returned %s: ", OP_NAMES[rec.op.kind], rec.status >= 0 ? status_name(rec.status) : "") + f;
                break;
            }
        } else if (o.w2) { u64 sc; scan_stack(t, {}, &sc); }
    }
    if (!r.v.found && ck.foreign.empty() && owns(p.prop, A_LEDGER, false)) {
        for (auto& b : E.blocks) if (b.live) { r.v.found = true; r.v.prop = p.prop; r.v.oracle = "model"; r.v.cls = "ledger"; r.v.op = (int)ops.size(); r.v.msg = strf("blk%d is still allocated after every seed was freed", b.id); break; }
    }
    // leave the library without live seeds even if the run stopped early
    for (int ti = 0; ti < ntasks; ++ti) for (int s = 0; s < 64; ++s) tasks[ti].slots[s] = nullptr;
    r.log_hash = log.h;
    r.st.merge(E.stats);
    E.stats.c.clear();
    return r;
}

static void fold_seam_counts(RunResult& r) {
    for (int k = 0; k < EV_NKINDS; ++k) if (E.seam_count[k]) { r.st.add(std::string("seam_") + EV_NAMES[k], E.seam_count[k]); E.seam_count[k] = 0; }
}

// ---- preempt mode (C20)
struct TaskScript { std::vector<OpRec> recs; size_t next = 0; bool done = false; };

static void run_script_job(Task* t, TaskScript* sc, bool preempt) {
    for (; sc->next < sc->recs.size(); ++sc->next) {
        if (preempt && sc->next > 0) boundary_tick(t);
        exec_op(t, sc->recs[sc->next], preempt);
    }
    sc->done = true;
}

static void clear_slots_and_free(RunResult& r) {
    // free what the scripts left behind (not part of any transcript)
    for (int ti = 0; ti < ntasks; ++ti) for (int s = 0; s < 64; ++s) if (tasks[ti].slots[s]) {
        Task* t = &tasks[ti]; void* p = t->slots[s];
        OpRec rec; rec.idx = 100000 + ti * 64 + s;
        run_on_task(t, [&] { t->cur = &rec; polyseed_free((polyseed_data*)p); t->cur = nullptr; }, r, -1);
        t->slots[s] = nullptr;
    }
}

static RunResult run_preempt(const Plan& p, const RunOpts& o) {
    RunResult r;
    LogSink log{r, o.keep_log};
    E.trampoline = false;
    int nt = std::max(1, std::min(p.ntasks, ntasks));
    // setup on task 0, not preempted
    size_t i = 0;
    E.in_setup = true;
    for (; i < p.ops.size(); ++i) {
        int k = p.ops[i].kind;
        if (k != OP_INJECT && k != OP_ENABLE && k != OP_CONFIG) break;
        OpRec rec; rec.idx = (int)i; rec.op = p.ops[i]; rec.op.task = p.ops[i].task % nt;      // set-up is serial, but not necessarily all on one thread
        Task* st = &tasks[rec.op.task];
        run_on_task(st, [&] { exec_op(st, rec, false); }, r, (int)i);
        log.line(rec.str());
    }
    E.in_setup = false;
    size_t first = i;
    auto build = [&](std::vector<TaskScript>& sc) {
        sc.assign(nt, TaskScript());
        for (size_t j = first; j < p.ops.size(); ++j) {
            const Op& op = p.ops[j];
            if (op.kind == OP_INJECT || op.kind == OP_ENABLE || op.kind == OP_CONFIG) continue;   // configuration happens before the threads start
            OpRec rec; rec.idx = (int)j; rec.op = op; rec.op.task = op.task % nt;
            sc[rec.op.task].recs.push_back(rec);
        }
    };
    // What a task observes: statuses, outputs, and everything it hands to or receives from the environment that can influence
    // them. Allocator and wipe calls are left out: which task performs a one-time, correctly synchronised set-up (and so
    // allocates or wipes something on behalf of all) legitimately depends on the schedule.
    auto transcript = [&](const TaskScript& s) {
        std::vector<std::string> v;
        for (auto& rc : s.recs) {
            OpRec c = rc;
            c.ev.erase(std::remove_if(c.ev.begin(), c.ev.end(), [](const SeamEvent& e) { return e.kind == EV_MEMZERO || e.kind == EV_ALLOC || e.kind == EV_FREE || e.kind == EV_LIBC_MALLOC || e.kind == EV_LIBC_FREE; }), c.ev.end());
            v.push_back(c.str());
        }
        return v;
    };

    // ---- concurrent phase
    std::vector<TaskScript> conc; build(conc);
    size_t nblocks_before = E.blocks.size();
    E.shadow.clear(); E.mon_violation = Violation(); E.monitor = have_monitor; E.shared_stores = 0;
    E.report_ownership = p.prop == "C20"; E.report_races = p.prop == "C20" && !E.no_race_oracle;
    Rng srng(o.sched_seed ? o.sched_seed : 1);
    E.sched_rng = Rng(mix64(o.sched_seed, 77));
    bool generated = p.sched.empty() && o.sched_strategy >= 0;
    bool coarse = p.ops.size() > 1000;
    E.seam_chase = generated && (o.sched_strategy % 5) == 3;
    E.write_chase = generated && (o.sched_strategy % 5) == 4 && E.monitor;
    E.yield_at_op = generated && (o.sched_strategy % 5) == 0;
    std::vector<bool> started(nt, false);
    size_t qi = 0;
    int strategy = o.sched_strategy;
    // PCT-style state
    std::vector<int> prio(nt); for (int k = 0; k < nt; ++k) prio[k] = (int)srng.below(1000) + 1000;
    u64 sched_h = 0xcbf29ce484222325ull;
    u64 total_quanta = 0;
    u64 all_blocked_rounds = 0;
    for (;;) {
        std::vector<int> runnable, unblocked;
        for (int k = 0; k < nt; ++k) if (!conc[k].done) { runnable.push_back(k); if (!tasks[k].blocked) unblocked.push_back(k); }
        if (runnable.empty()) break;
        if (!unblocked.empty()) runnable = unblocked; else { if (++all_blocked_rounds > 100000) { r.v.found = true; r.v.prop = p.prop; r.v.oracle = "liveness"; r.v.cls = "deadlock"; r.v.msg = "every task waits for a lock of the library held by another task"; break; } }
        for (int k = 0; k < nt; ++k) tasks[k].blocked = false;      // a waiting task retries once somebody else has run
        Quantum q;
        if (qi < p.sched.size()) {
            // a recorded schedule names the task itself; only if that task cannot run (a shrunk plan) is the choice re-mapped
            q = p.sched[qi++];
            if (std::find(runnable.begin(), runnable.end(), q.task) == runnable.end()) q.task = runnable[(size_t)q.task % runnable.size()];
            if (!q.edges) q.edges = 1;
        }
        else if (!p.sched.empty() || strategy < 0) { q.task = runnable[0]; q.edges = 1u << 30; }
        else {
            switch (strategy % 5) {
            case 0: q.task = runnable[srng.below(runnable.size())]; q.edges = 1u << 30; break;   // whole operations (yield at op boundary below)
            case 1: { q.task = runnable[srng.below(runnable.size())]; unsigned k = 3 + 3 * (unsigned)((o.sched_seed >> 8) % 4); q.edges = 1 + (u32)srng.below(2u << k); break; }
            case 2: { int best = runnable[0]; for (int k : runnable) if (prio[k] > prio[best]) best = k; q.task = best; q.edges = 1 + (u32)srng.below(20000);
                      if (srng.chance(1, 3)) prio[best] = (int)srng.below(1000); break; }
            default: { q.task = runnable[srng.below(runnable.size())]; q.edges = 1 + (u32)srng.below(srng.chance(1, 2) ? 64 : 4096); break; }   // 3: seam-chasing, 4: write-chasing ride on short quanta
            }
        }
        if (coarse && generated && q.edges < (1u << 24)) q.edges *= 512;     // long (soak) histories: coarser quanta, the same strategies
        Task* t = &tasks[q.task];
        t->countdown = q.edges;
        t->ticks_in_quantum = 0;
        ++total_quanta;
        int st;
        if (!started[q.task]) {
            started[q.task] = true;
            TaskScript* sc = &conc[q.task];
            t->job = [t, sc] { run_script_job(t, sc, true); };
            st = resume(t);
        } else st = resume(t);
        // record what was actually consumed, so that the explicit schedule replays without the strategy
        if (st == TS_PREEMPTED) q.edges = (u32)std::max<u64>(1, t->ticks_in_quantum);
        r.sched_taken.push_back(q);
        sched_h = fnv1a(&q.task, sizeof q.task, sched_h); sched_h = fnv1a(&q.edges, sizeof q.edges, sched_h);
        if (st == TS_PREEMPTED) {
            r.st.add("preemptions");
            // reach measure: where the switch happened and what the others were doing
            std::string others;
            for (int k = 0; k < nt; ++k) if (k != q.task && started[k] && !conc[k].done && conc[k].next < conc[k].recs.size()) others += OP_NAMES[conc[k].recs[conc[k].next].op.kind];
            r.st.add("pair_" + strf("%u_", t->last_guard) + others, 1);
        }
        if (st == TS_BUDGET) { r.v.found = true; r.v.prop = p.prop; r.v.oracle = "liveness"; r.v.cls = "step-budget"; r.v.msg = "a call did not return within the step budget"; break; }
        if (E.mon_violation.found) break;
        if (total_quanta > 40000000) { r.v.found = true; r.v.prop = p.prop; r.v.oracle = "liveness"; r.v.cls = "quanta"; r.v.msg = "schedule did not terminate"; break; }
    }
    E.monitor = false; E.seam_chase = E.write_chase = E.yield_at_op = false;
    r.sched_hash = sched_h;
    // (the schedule is not part of the run's identity: a correct library may do one-time initialisation in whichever run comes
    // first in a process, which shifts edge counts; transcripts must not depend on it, and that is what is compared)
    r.st.add("quanta", total_quanta);
    r.st.add("shared_stores", E.shared_stores);
    if (E.under_lock_accesses) { r.st.add("mon_accesses_under_lock", E.under_lock_accesses); E.under_lock_accesses = 0; }
    for (int k = 0; k < nt; ++k) for (auto& rc : conc[k].recs) {
        log.line(strf("T%d ", k) + rc.str());
        if (!rc.skipped && rc.done) { r.ops_run++; r.st.add(std::string("op_") + OP_NAMES[rc.op.kind]); if (rc.status >= 0) r.st.add(strf("status_%s_%s", OP_NAMES[rc.op.kind], status_name(rc.status))); }
    }
    if (r.v.found) { r.log_hash = log.h; return r; }
    if (E.mon_violation.found) {
        r.v = E.mon_violation; r.v.prop = p.prop;
        r.log_hash = log.h;
        // abandon the run: tasks may be parked inside the library; the process is not reused after a violation
        return r;
    }
    clear_slots_and_free(r);
    if (p.prop == "C15" || p.prop == "C20")      // (oracle S leaves allocator and wipe events out of the transcripts: a release that was dropped shows here)
        for (auto& b : E.blocks) if (b.live) { r.v.found = true; r.v.prop = p.prop; r.v.oracle = "model"; r.v.cls = "ledger"; r.v.op = (int)p.ops.size(); r.v.msg = strf("blk%d (taken by task %d) is still allocated after every seed was freed", b.id, b.task); r.log_hash = log.h; return r; }
    // ---- serial reference: the same scripts, each alone, same binary, same library state
    std::vector<TaskScript> solo; build(solo);
    // block numbering restarts so that the transcripts are comparable
    for (auto& b : E.blocks) if (b.base) { unpoison(b.p, b.size); free(b.base); }
    E.blocks.clear(); clear_block_index(); E.last_freed = -1; memset(E.task_blk_seq, 0, sizeof E.task_blk_seq); (void)nblocks_before;
    // the concurrent transcripts were rendered with their own numbering; renumber by replaying is not needed because
    // block ids enter the transcripts per task (see below)
    for (int k = 0; k < ntasks; ++k) { tasks[k].have_phrase = false; tasks[k].have_store = false; }
    for (int k = 0; k < nt; ++k) {
        Task* t = &tasks[k]; TaskScript* sc = &solo[k];
        run_on_task(t, [t, sc] { run_script_job(t, sc, false); }, r, -1);
        clear_slots_and_free(r);
    }
    for (int k = 0; k < nt && !r.v.found; ++k) {
        auto a = transcript(conc[k]), b = transcript(solo[k]);
        for (size_t j = 0; j < a.size(); ++j) if (a[j] != b[j]) {
            int kd = conc[k].recs[j].op.kind;
            if (p.prop == "C04" && kd != OP_KEYGEN) continue;     // C04 owns what reaches the KDF during key derivation
            if (p.prop == "C10" && kd != OP_GETF && kd != OP_ISENC && kd != OP_ENABLE && !(is_ctor(kd) && (conc[k].recs[j].status == ST_UNSUPPORTED) != (solo[k].recs[j].status == ST_UNSUPPORTED))) continue;
            if (p.prop == "C11" && kd != OP_GETB && kd != OP_STORE) continue;
            if (p.prop == "C12" && kd != OP_CRYPT && kd != OP_ISENC && kd != OP_STORE) continue;
            r.v.found = true; r.v.prop = p.prop; r.v.oracle = "S"; r.v.cls = "serial-equivalence"; r.v.op = conc[k].recs[j].idx;
            r.v.msg = strf("task %d observed under this interleaving: %s ;; alone it observes: %s", k, a[j].c_str(), b[j].c_str());
            break;
        }
    }
    r.log_hash = log.h;
    r.st.merge(E.stats); E.stats.c.clear();
    return r;
}

RunResult run_plan(const Plan& p, const RunOpts& o) {
    reset_run();
    cleanup_pages();
    E.cur_gen = -1; E.cur_opt = 0; E.fill = 0; E.fill_seed = 0; E.kdf_mode = 0; E.monitor = false; E.norm_full_len = false; E.misalign = false; E.lifo_reuse = false; E.norm_zero_on_invalid = false; E.errno_noise = false; E.norm_alias_unsafe = false; E.syscall_faults = false; E.no_race_oracle = getenv("POLYSIM_NO_R") != nullptr;
    E.stats.c.clear();
    for (int ti = 0; ti < ntasks; ++ti) { memset(tasks[ti].slots, 0, sizeof tasks[ti].slots); tasks[ti].locks_held = 0; tasks[ti].blocked = false; tasks[ti].have_phrase = false; tasks[ti].have_store = false; }
    RunResult r = (p.mode == "preempt") ? run_preempt(p, o) : run_ops(p, o);
    if (r.v.found && r.v.prop.empty()) r.v.prop = p.prop;
    fold_seam_counts(r);
    HAVE_MONITOR = have_monitor; HAVE_EDGES = have_edges;
    return r;
}

}  // namespace sim

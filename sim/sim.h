// polysim — plan, environment, tasks and executor declarations.
#pragma once
#include "common.h"
#include <semaphore.h>
#include <pthread.h>

// ---------------------------------------------------------------- plan
enum OpKind { OP_INJECT, OP_ENABLE, OP_CONFIG, OP_CREATE, OP_LOAD, OP_STORE, OP_ENCODE, OP_DECODE, OP_DECODEX,
              OP_CRYPT, OP_KEYGEN, OP_GETB, OP_GETF, OP_ISENC, OP_FREE, OP_FREENULL, OP_LANGQ, OP_NKINDS };
extern const char* OP_NAMES[OP_NKINDS];

struct Op {
    int kind = OP_FREENULL;
    int task = 0;
    int slot = 0;              // seed slot of that task
    u64 a = 0, b = 0;          // inject: a=generation b=optional-entry bits(1 time,2 alloc,4 free); enable: a=mask;
                               // config: a=fill b=kdf mode; create: a=features; encode: a=lang b=coin; decode: b=coin;
                               // decodex: a=lang b=coin; keygen: a=coin b=key size; getf: a=mask; langq: a=index
    bytes data;                // create: random bytes; load: 32 bytes; decode*: phrase; crypt: password
    std::vector<u64> clock;    // create: readings the clock seam returns, in turn (last one repeats)
    u64 fail = 0;              // bit i set: the i-th allocation request made during this op fails
    u64 chain = 0;             // decode/decodex: the phrase is what this task's latest polyseed_encode wrote (same coin; decodex: same
                               // language); load: the image is what its latest polyseed_store wrote. The library's own outputs become inputs.
    u64 reinj = 0;             // non-zero: during the first allocation request of this op the environment calls polyseed_inject
                               // itself (lazy bootstrap): value = 1 + generation*8 + optional-entry bits
    std::string text() const;
    static bool parse(const std::string& line, Op& out);
};

// keygen: op.b packs the key size the caller asks for, where the caller's key buffer lies, and a 'huge' multiplier
static inline size_t keygen_base(u64 b) { size_t n = (size_t)((b & 0xFFFF) % 4097); return n ? n : 1; }
static inline size_t keygen_off(u64 b) { return (size_t)((b >> 16) & 7); }                                   // misalignment of the key buffer
static inline size_t keygen_size(u64 b) { return keygen_base(b) + ((size_t)((b >> 20) & 3) << 32); }        // what polyseed_keygen is told
static inline size_t keygen_buf(u64 b) { return ((b >> 20) & 3) ? 8192 : keygen_base(b); }                  // what the KDF stub fills (it caps at 8192)

struct Quantum { int task; u32 edges; };

struct Plan {
    std::string prop;                 // property under check (selects the oracles)
    std::string mode = "ops";         // "ops": one history, tasks interleaved at operation boundaries; "preempt": C20
    int ntasks = 1;
    std::vector<Op> ops;
    std::vector<Quantum> sched;       // preempt mode: explicit schedule prefix; afterwards lowest runnable task runs on
    u64 origin_seed = 0;              // informational
    std::string text() const;
    static bool parse(const std::string& s, Plan& out);
    u64 hash() const { return fnv1a(text()); }
};

// ---------------------------------------------------------------- environment events
enum EvKind { EV_RAND, EV_KDF, EV_MEMZERO, EV_NFC, EV_NFKD, EV_TIME, EV_ALLOC, EV_FREE,
              EV_LIBC_MALLOC, EV_LIBC_FREE, EV_LIBC_TIME, EV_FORBIDDEN, EV_NKINDS };
extern const char* EV_NAMES[EV_NKINDS];
enum PtrClass { PC_NULL, PC_STACK, PC_STACK_OTHER, PC_BLOCK, PC_BUF, PC_OTHER };

struct PtrInfo { int cls = PC_OTHER; int id = -1; u64 off = 0; int disp = -1; std::string str() const; };

struct SeamEvent {
    int kind = 0;
    int gen = -1;              // generation of the function that was entered (-1: libc / forbidden)
    bool stale = false;        // entered a generation that is not the currently injected one, or an entry injected as NULL
    u64 n = 0;                 // rand: bytes requested; memzero: length; alloc: size; kdf: iterations
    u64 keylen = 0;
    bytes a, b, out;           // rand: delivered; kdf: pw, salt, produced key; nfc/nfkd: input, output
    PtrInfo p;                 // memzero/free/alloc target, kdf key pointer, rand destination
    bool failed = false;       // alloc: failed by plan
    bool bad = false;          // free: NULL, unknown or repeated pointer
    u64 reading = 0;           // time
    std::string name;          // forbidden symbol
    std::string str() const;   // address-free rendering for the event log
};

struct Block {
    int id; int disp; u8* p; size_t size; int task; int op; bool live; bool via_libc; int freed_op;
    bool zero_at_free; bool wiped_by_memzero; u8* base; bool recycled;
    std::vector<std::pair<u64, u64>> zeroed;    // ranges passed to the current memzero during the freeing op
};

struct BufReg { const u8* p; size_t n; int id; };
enum { BUF_IN = 1, BUF_OUT = 2, BUF_KEY = 3, BUF_STORAGE = 4, BUF_SEEDOUT = 5, BUF_LANGOUT = 6 };

struct OpRec {
    int idx = -1;
    Op op;
    int task = 0;
    bool skipped = false;
    bool done = false;
    int status = -1;               // -1: the call returns no status
    u64 ret = 0;                   // encode length, enable count, getters
    bytes out;                     // phrase bytes, storage bytes, key bytes
    int lang_out = -2;             // decode: index of *lang_out (-2 untouched sentinel, -1 unknown pointer)
    bool produced = false;         // *seed_out was written
    void* seed_ptr = nullptr;
    bool input_modified = false;
    bool guard_broken = false;
    std::vector<SeamEvent> ev;
    int nalloc = 0;
    bool reinj_done = false;
    bool alloc_failed = false;
    std::vector<BufReg> bufs;
    u64 edges = 0;
    u64 selftest_norms = 0;        // normalisation calls made by the self-test inside polyseed_inject (not logged one by one)
    std::string str() const;       // address-free
};

// ---------------------------------------------------------------- tasks
enum TaskState { TS_IDLE, TS_RUNNING, TS_DONE, TS_PREEMPTED, TS_SEAMREQ, TS_BUDGET };

struct Task {
    int id;
    pthread_t th;
    u8* stack_lo; size_t stack_size;
    u8* seam_stack; size_t seam_stack_size;   // side stack on which dependency bodies run (uninstrumented builds)
    sem_t go;
    volatile int state;
    std::function<void()> job;
    bool preemptible;
    long countdown;
    u64 ticks_in_quantum;
    const u8* watch_p; size_t watch_n; u64 watch_hits; bool watch_armed;   // caller's key buffer during polyseed_keygen (per task: several may derive keys at once)
    int locks_held;                 // locks of the library held by this task (accesses under a lock are synchronised)
    bool blocked;                   // yielded because a lock of the library is held by another task
    u64 edges_call;                 // edges inside the current API call
    u64 edges_total;
    OpRec* cur;                     // record of the operation in flight
    void* entry_sp;                 // stack address of the library entry frame (W2)
    std::function<void()>* seam_req;
    u32 last_guard;
    void* slots[64];
    bytes last_phrase; u64 last_phrase_lang, last_phrase_coin; bool have_phrase; bytes last_store; bool have_store;   // latest outputs (for chained operations)
};

struct Violation {
    bool found = false;
    std::string prop, oracle, cls, msg;
    int op = -1;
    std::string str() const { return found ? prop + "/" + oracle + "/" + cls + " op=" + std::to_string(op) + ": " + msg : "none"; }
};

struct Stats {
    std::map<std::string, u64> c;
    void add(const std::string& k, u64 n = 1) { c[k] += n; }
    void merge(const Stats& o) { for (auto& kv : o.c) c[kv.first] += kv.second; }
};

struct RunResult {
    Violation v;
    u64 log_hash = 0;
    std::vector<std::string> log;      // event log lines (kept only when asked)
    Stats st;
    u64 sched_hash = 0;
    std::vector<Quantum> sched_taken;  // preempt mode: the schedule actually executed
    int ops_run = 0;
};

struct RunOpts {
    bool keep_log = false;
    bool w2 = false;                   // scan task stacks after every operation (C16, non-ASan builds)
    bool monitor = false;              // access monitor (C20, san)
    u64 sched_seed = 0;                // preempt mode: seed for the scheduler once the explicit prefix is exhausted
    int sched_strategy = 0;
    int fill_override = -1;
};

namespace sim {
extern const char* BUILD_CFG;          // name of the build configuration (set at compile time)
extern bool HAVE_EDGES, HAVE_MONITOR, HAVE_ASAN;
void init(int ntasks_max);
RunResult run_plan(const Plan& p, const RunOpts& o);
u32 num_guards();
u32 guards_hit();
}

namespace gen {
Plan make(const std::string& prop, u64 seed, int variant, bool fresh = false);
}

// polysim command line: seeded batches, replay of explicit plans, minimisation.
#include "sim.h"
#include "env.h"
#include <unistd.h>
#include <sys/wait.h>
#include <signal.h>
#include <sys/time.h>
#include <time.h>
#include <fstream>
#include <sstream>

extern "C" __attribute__((used, visibility("default"))) const char* __asan_default_options() {
    return "exitcode=77:detect_leaks=0:abort_on_error=0:handle_abort=0:allocator_may_return_null=1:detect_stack_use_after_return=0";
}
extern "C" __attribute__((used, visibility("default"))) const char* __ubsan_default_options() { return "halt_on_error=1:exitcode=77:print_stacktrace=0"; }

// Watchdog for calls that never return (uninstrumented builds have no step budget). It counts CPU time of the process,
// not wall-clock time, so that a loaded machine cannot turn a slow run into an alarm; a generous wall-clock alarm
// remains for the case of a process that sleeps forever.
static void watchdog(int cpu_seconds) {
    struct itimerval it; memset(&it, 0, sizeof it);
    it.it_value.tv_sec = cpu_seconds;
    setitimer(ITIMER_PROF, &it, nullptr);
    alarm(cpu_seconds * 20 + 600);
}
static double now_s() { struct timespec ts; clock_gettime(CLOCK_MONOTONIC, &ts); return ts.tv_sec + ts.tv_nsec * 1e-9; }

static std::string read_file(const std::string& p) { std::ifstream f(p, std::ios::binary); std::stringstream ss; ss << f.rdbuf(); return ss.str(); }
static void write_file(const std::string& p, const std::string& s) { std::ofstream f(p, std::ios::binary); f << s; }

static u64 prop_tag(const std::string& prop) { return fnv1a(prop); }
static u64 run_seed(u64 base, const std::string& prop, u64 r) { return mix64(mix64(base, prop_tag(prop)), r); }

struct Cfg {
    std::string cmd, prop, plan_path, out_path, data_dir, outdir = ".";
    u64 seed = 0; long runs = 100; int worker = 0, nworkers = 1; double budget_s = 0; bool twice = false; bool keep_log = false;
    bool w2 = false; int variant_base = 0; bool enumerate = true; bool fills = true; long start = 0; int tag = -1; bool fresh = false;
};

static RunOpts opts_for(const Plan& p, const Cfg& c, u64 sseed) {
    RunOpts o;
    o.keep_log = c.keep_log;
    o.w2 = (p.prop == "C16") && !sim::HAVE_ASAN;
    o.monitor = (p.prop == "C20");
    o.sched_seed = sseed;
    o.sched_strategy = (int)((sseed >> 4) % 5);
    return o;
}

static std::string vclass(const Violation& v) { return v.oracle + "/" + v.cls; }

// ---- C15: every single-fault placement of a history, and independence from fresh-memory contents
struct Finding { bool found = false; Plan plan; Violation v; RunOpts opts; };

static Finding check_plan(const Plan& p, const Cfg& c, u64 sseed, Stats& agg, u64* loghash, bool* nontrivial, int* ops_run) {
    Finding f;
    RunOpts o = opts_for(p, c, sseed);
    bool need_log = (p.prop == "C15" || p.prop == "C13") && p.mode == "ops";
    o.keep_log = c.keep_log || need_log;
    RunResult r = sim::run_plan(p, o);
    agg.merge(r.st);
    if (loghash) *loghash = r.log_hash;
    if (ops_run) *ops_run = r.ops_run;
    if (nontrivial) {
        u64 okc = 0;
        for (auto& kv : r.st.c) if (kv.first.rfind("status_", 0) == 0 && kv.first.size() > 3 && kv.first.compare(kv.first.size() - 3, 3, "_OK") == 0) okc += kv.second;
        *nontrivial = okc > 0 || r.st.c.count("fault_alloc_fail") || r.st.c.count("preemptions");
    }
    if (r.v.found) {
        f.found = true; f.plan = p; f.v = r.v; f.opts = o;
        if (p.mode == "preempt") f.plan.sched = r.sched_taken;
        return f;
    }
    if (p.mode == "preempt") { agg.add("sched_" + strf("%016llx", (unsigned long long)r.sched_hash), 1); return f; }
    // fresh-memory independence: the same history under other fill patterns must give the same log
    // (a fresh plan relies on the initial state of its process: it cannot be executed a second time in the same process)
    if ((p.prop == "C13" || p.prop == "C15") && c.fills && !c.fresh) {
        static const int alt[] = {0, 1, 2, 3};
        int tried = 0;
        for (int fl : alt) {
            if (tried >= 2) break;
            RunOpts o2 = o; o2.fill_override = fl;
            ++tried;
            RunResult r2 = sim::run_plan(p, o2);
            agg.add("fill_differential_runs");
            if (r2.v.found) { f.found = true; f.plan = p; f.v = r2.v; f.opts = o2; for (auto& op : f.plan.ops) if (op.kind == OP_CONFIG) op.a = (op.a & ~0xFFull) | (u64)fl; return f; }
            if (r2.log_hash != r.log_hash) {
                f.found = true; f.plan = p; f.opts = o2;
                for (auto& op : f.plan.ops) if (op.kind == OP_CONFIG) op.a = (op.a & ~0xFFull) | (u64)fl;
                f.v.found = true; f.v.prop = p.prop; f.v.oracle = "fill"; f.v.cls = "fresh-memory-dependence";
                size_t k = 0; while (k < r.log.size() && k < r2.log.size() && r.log[k] == r2.log[k]) ++k;
                f.v.op = (int)k;
                f.v.msg = "results depend on the contents of freshly allocated memory: " + (k < r2.log.size() ? r2.log[k] : std::string("(log shorter)")) + " ;; with another fill pattern: " + (k < r.log.size() ? r.log[k] : std::string("(log shorter)"));
                return f;
            }
        }
    }
    // single-fault enumeration: every allocation request of the history fails once
    if (p.prop == "C15" && c.enumerate && !c.fresh && p.ops.size() <= 120) {      // (long soak histories carry sampled faults only)
        // allocation requests per op from the fault-free log
        std::vector<std::pair<size_t, int>> sites;
        for (size_t i = 0; i < r.log.size() && i < p.ops.size(); ++i) {
            const std::string& L = r.log[i];
            int n = 0; size_t pos = 0;
            while ((pos = L.find(" alloc@", pos)) != std::string::npos) { ++n; ++pos; }
            pos = 0; while ((pos = L.find(" libc_malloc", pos)) != std::string::npos) { ++n; ++pos; }
            for (int k = 0; k < n && k < 64; ++k) if (!((p.ops[i].fail >> k) & 1)) sites.push_back({i, k});
        }
        for (auto& s : sites) {
            Plan q = p; q.ops[s.first].fail |= 1ull << s.second;
            RunResult rq = sim::run_plan(q, o);
            agg.add("enumerated_single_faults");
            agg.merge(rq.st);
            if (rq.v.found) { f.found = true; f.plan = q; f.v = rq.v; f.opts = o; return f; }
            // operations that do not depend on the refused seed behave exactly as in the fault-free pass
            const Op& fo = p.ops[s.first];
            bool dep = false; int deptask = fo.task, depslot = fo.slot & 7;
            for (size_t i = 0; i < r.log.size() && i < rq.log.size(); ++i) {
                if (i == s.first) { dep = true; continue; }
                if (i < p.ops.size()) {
                    const Op& oi = p.ops[i];
                    bool same_slot = oi.task == deptask && (oi.slot & 7) == depslot && oi.kind != OP_INJECT && oi.kind != OP_ENABLE && oi.kind != OP_CONFIG && oi.kind != OP_FREENULL && oi.kind != OP_LANGQ;
                    if (dep && same_slot) { if (oi.kind == OP_FREE) { /* skipped in the faulted run */ dep = true; } continue; }
                } else break;     // teardown differs legitimately
                // compare with block numbering removed (one block fewer was allocated)
                auto norm = [](std::string x) { size_t p2 = 0; while ((p2 = x.find("blk", p2)) != std::string::npos) { size_t e = p2 + 3; while (e < x.size() && (isdigit((unsigned char)x[e]) || x[e] == '.')) ++e; x.replace(p2, e - p2, "blk"); p2 += 3; } return x; };
                if (norm(r.log[i]) != norm(rq.log[i])) {
                    f.found = true; f.plan = q; f.opts = o;
                    f.v.found = true; f.v.prop = p.prop; f.v.oracle = "post-fault"; f.v.cls = "behaviour-after-failure"; f.v.op = (int)i;
                    f.v.msg = strf("after allocation request %d of operation #%zu was refused, an unrelated operation behaves differently: ", s.second, s.first) + rq.log[i] + " ;; fault-free: " + r.log[i];
                    return f;
                }
            }
        }
    }
    return f;
}

// ---- child-process execution of one plan (for replay and minimisation): class string or "" if clean
struct ChildResult { bool violation = false; std::string cls, msg; u64 loghash = 0; bool crashed = false; std::vector<std::string> log; };

static ChildResult run_in_child(const Plan& p, const Cfg& c, u64 sseed, bool want_log) {
    ChildResult cr;
    char tmpl[] = "/tmp/polysim-child-XXXXXX";
    int fd = mkstemp(tmpl);
    if (fd < 0) { perror("mkstemp"); exit(3); }
    std::string errpath = std::string(tmpl) + ".err";
    fflush(stdout); fflush(stderr);
    pid_t pid = fork();
    if (pid == 0) {
        if (!freopen(errpath.c_str(), "w", stderr)) _exit(5);
        watchdog(p.ops.size() > 2000 ? 600 : 60);
        sim::init(env::MAXT);
        Cfg c2 = c; c2.keep_log = want_log;
        Stats agg; u64 lh = 0;
        Finding f = check_plan(p, c2, sseed, agg, &lh, nullptr, nullptr);
        std::string out = strf("done\nloghash=%016llx\n", (unsigned long long)lh);
        if (f.found) out += "violation=" + vclass(f.v) + "\nop=" + std::to_string(f.v.op) + "\nmsg=" + f.v.msg + "\n";
        if (want_log) {
            RunOpts o = f.found ? f.opts : opts_for(p, c2, sseed); o.keep_log = true;
            if (!f.found) { RunResult r = sim::run_plan(p, o); for (auto& l : r.log) out += "log=" + l + "\n"; }
        }
        if (write(fd, out.data(), out.size()) < 0) _exit(4);
        _exit(0);
    }
    int status = 0;
    waitpid(pid, &status, 0);
    close(fd);
    std::string out = read_file(tmpl), err = read_file(errpath);
    unlink(tmpl); unlink(errpath.c_str());
    if (out.rfind("done\n", 0) != 0) {
        cr.violation = true; cr.crashed = true;
        std::string why;
        if (WIFSIGNALED(status)) why = strf("signal %d", WTERMSIG(status)); else why = strf("exit code %d", WEXITSTATUS(status));
        // classify by the first diagnostic line
        std::string diag;
        std::istringstream es(err); std::string line;
        while (std::getline(es, line)) {
            if (line.find("ERROR: AddressSanitizer") != std::string::npos || line.find("runtime error") != std::string::npos || line.find("Assertion") != std::string::npos || line.find("SUMMARY") != std::string::npos) { diag += line + " | "; if (diag.size() > 600) break; }
        }
        std::string kind = "crash";
        if (err.find("AddressSanitizer") != std::string::npos) { kind = "asan"; size_t p2 = err.find("ERROR: AddressSanitizer: "); if (p2 != std::string::npos) { size_t e = err.find_first_of(" \n", p2 + 25); kind = "asan-" + err.substr(p2 + 25, e - (p2 + 25)); } }
        else if (err.find("runtime error") != std::string::npos) kind = "ubsan";
        else if (err.find("Assertion") != std::string::npos) kind = "assert";
        else if (WIFSIGNALED(status) && (WTERMSIG(status) == SIGALRM || WTERMSIG(status) == SIGPROF)) kind = "hang";
        else if (WIFSIGNALED(status)) kind = strf("signal-%d", WTERMSIG(status));
        cr.cls = "crash/" + kind; cr.msg = "the library did not survive the history (" + why + "): " + diag;
        return cr;
    }
    std::istringstream is(out); std::string line;
    while (std::getline(is, line)) {
        if (line.rfind("loghash=", 0) == 0) cr.loghash = strtoull(line.substr(8).c_str(), nullptr, 16);
        else if (line.rfind("violation=", 0) == 0) { cr.violation = true; cr.cls = line.substr(10); }
        else if (line.rfind("msg=", 0) == 0) cr.msg = line.substr(4);
        else if (line.rfind("log=", 0) == 0) cr.log.push_back(line.substr(4));
    }
    return cr;
}

// ---- minimisation: ddmin over operations, then fault/argument simplification, then the schedule
static Plan minimise(Plan p, const std::string& cls, const Cfg& c, u64 sseed, int* tests_out) {
    int tests = 0; const int MAXTESTS = 1500;
    double t_end = now_s() + (c.budget_s > 0 ? c.budget_s : 90);      // minimisation is bounded in wall time as well
    auto still = [&](const Plan& q) { if (tests >= MAXTESTS || now_s() > t_end) return false; ++tests; ChildResult r = run_in_child(q, c, sseed, false); return r.violation && r.cls == cls; };
    // ddmin on ops
    size_t n = 2;
    while (p.ops.size() >= 2 && tests < MAXTESTS && now_s() < t_end) {
        size_t chunk = (p.ops.size() + n - 1) / n;
        bool reduced = false;
        for (size_t i = 0; i < p.ops.size(); i += chunk) {
            Plan q = p; q.ops.erase(q.ops.begin() + i, q.ops.begin() + std::min(p.ops.size(), i + chunk));
            if (q.ops.empty()) continue;
            if (still(q)) { p = q; n = std::max<size_t>(n - 1, 2); reduced = true; break; }
        }
        if (!reduced) { if (chunk == 1) break; n = std::min(p.ops.size(), n * 2); }
    }
    // simplify arguments
    for (size_t i = 0; i < p.ops.size() && tests < MAXTESTS; ++i) {
        auto attempt = [&](std::function<void(Op&)> fn) { Plan q = p; fn(q.ops[i]); if (q.ops[i].text() != p.ops[i].text() && still(q)) p = q; };
        attempt([](Op& o) { o.fail = 0; });
        attempt([](Op& o) { if (o.fail) o.fail = o.fail & (~o.fail + 1); });
        attempt([](Op& o) { o.task = 0; });
        attempt([](Op& o) { if (o.clock.size() > 1) o.clock.resize(1); });
        attempt([](Op& o) { if (o.kind == OP_CREATE) o.clock.clear(); });
        attempt([](Op& o) { if (o.kind == OP_ENCODE || o.kind == OP_DECODE || o.kind == OP_DECODEX) o.b = 0; if (o.kind == OP_KEYGEN) o.a = 0; });
        attempt([](Op& o) { if (o.kind == OP_ENCODE || o.kind == OP_DECODEX) o.a = 0; });
        attempt([](Op& o) { if (o.kind == OP_CRYPT) o.data = bytes{'a'}; });
        attempt([](Op& o) { if (o.kind == OP_KEYGEN) o.b = 32; });
        attempt([](Op& o) { if (o.kind == OP_CONFIG) { o.a = 0; o.b = 0; } });
        attempt([](Op& o) { if (o.kind == OP_INJECT) { o.a = 0; } });
        attempt([](Op& o) { if (o.kind == OP_INJECT) { o.b = 7; } });
        attempt([](Op& o) { if (o.kind == OP_CREATE) { o.a &= 7; } });
    }
    { Plan q = p; q.ntasks = 1; for (auto& o : q.ops) o.task = 0; if (p.mode != "preempt" && still(q)) p = q; }
    if (p.mode == "preempt") {
        // shorten the schedule: keep a prefix (the tail runs lowest-task-first), then coarsen
        size_t lo = 0, hi = p.sched.size();
        while (lo < hi && tests < MAXTESTS) { size_t mid = (lo + hi) / 2; Plan q = p; q.sched.resize(mid); if (q.sched.empty()) q.sched.push_back({0, 1u << 30}); if (still(q)) { hi = mid; p = q; } else lo = mid + 1; }
        for (size_t i = 0; i + 1 < p.sched.size() && tests < MAXTESTS;) {
            Plan q = p; q.sched.erase(q.sched.begin() + i);
            if (still(q)) p = q; else ++i;
        }
    }
    if (tests_out) *tests_out = tests;
    return p;
}

static std::string stats_json(const Stats& s) {
    std::string j = "{";
    bool first = true;
    for (auto& kv : s.c) { if (kv.first.rfind("pair_", 0) == 0 || kv.first.rfind("sched_", 0) == 0) continue; j += strf("%s\"%s\":%llu", first ? "" : ",", json_escape(kv.first).c_str(), (unsigned long long)kv.second); first = false; }
    return j + "}";
}

int main(int argc, char** argv) {
    Cfg c;
    if (argc < 2) { fprintf(stderr, "usage: polysim run|replay|gen|minimize ...\n"); return 3; }
    c.cmd = argv[1];
    for (int i = 2; i < argc; ++i) {
        std::string a = argv[i];
        auto val = [&]() -> std::string { if (i + 1 >= argc) { fprintf(stderr, "missing value for %s\n", a.c_str()); exit(3); } return argv[++i]; };
        if (a == "--prop") c.prop = val(); else if (a == "--seed") c.seed = strtoull(val().c_str(), nullptr, 10);
        else if (a == "--runs") c.runs = atol(val().c_str()); else if (a == "--start") c.start = atol(val().c_str());
        else if (a == "--worker") c.worker = atoi(val().c_str()); else if (a == "--nworkers") c.nworkers = atoi(val().c_str());
        else if (a == "--budget") c.budget_s = atof(val().c_str()); else if (a == "--twice") c.twice = true; else if (a == "--log") c.keep_log = true;
        else if (a == "--plan") c.plan_path = val(); else if (a == "--out") c.out_path = val(); else if (a == "--data") c.data_dir = val(); else if (a == "--outdir") c.outdir = val();
        else if (a == "--tag") c.tag = atoi(val().c_str());
        else if (a == "--fresh") c.fresh = true;
        else if (a == "--no-enumerate") c.enumerate = false; else if (a == "--no-fills") c.fills = false;
        else { fprintf(stderr, "unknown argument %s\n", a.c_str()); return 3; }
    }
    if (c.data_dir.empty()) { fprintf(stderr, "--data <wordlist dir> is required\n"); return 3; }
    model::load_wordlists(c.data_dir);

    if (c.cmd == "gen") {
        u64 rs = run_seed(c.seed, c.prop, (u64)c.start);
        Plan p = gen::make(c.prop, rs, (int)(c.start % 1000000), c.fresh);
        fputs(p.text().c_str(), stdout);
        return 0;
    }
    if (c.cmd == "concat") {
        // the histories a worker executed before (and including) a candidate, as one long history: used when a candidate
        // does not reproduce alone because the library carried state over from earlier runs of the same process
        Plan last;
        if (!Plan::parse(read_file(c.plan_path), last)) { fprintf(stderr, "cannot parse plan %s\n", c.plan_path.c_str()); return 3; }
        Plan all = last; all.ops.clear(); all.ntasks = env::MAXT;
        for (long r = c.start + c.worker; r < c.runs; r += c.nworkers) {
            Plan p = gen::make(c.prop, run_seed(c.seed, c.prop, (u64)r), (int)(r % 1000000));
            all.ops.insert(all.ops.end(), p.ops.begin(), p.ops.end());
            // what the end-of-run teardown did: release every seed (operations on empty slots are skipped)
            for (int t = 0; t < env::MAXT; ++t) for (int sl = 0; sl < 8; ++sl) { Op f; f.kind = OP_FREE; f.task = t; f.slot = sl; all.ops.push_back(f); }
        }
        all.ops.insert(all.ops.end(), last.ops.begin(), last.ops.end());
        fputs(all.text().c_str(), stdout);
        return 0;
    }
    if (c.cmd == "info") {
        sim::init(env::MAXT);
        printf("{\"cfg\":\"%s\",\"asan\":%s,\"edges\":%s,\"guards\":%u,\"str_size\":%d,\"langs\":%d}\n", sim::BUILD_CFG, sim::HAVE_ASAN ? "true" : "false", sim::HAVE_EDGES ? "true" : "false", sim::num_guards(), (int)STRSZ, polyseed_get_num_langs());
        return 0;
    }
    if (c.cmd == "replay" || c.cmd == "minimize") {
        Plan p;
        if (!Plan::parse(read_file(c.plan_path), p)) { fprintf(stderr, "cannot parse plan %s\n", c.plan_path.c_str()); return 3; }
        u64 sseed = p.origin_seed;
        if (c.cmd == "replay") {
            ChildResult r = run_in_child(p, c, sseed, c.keep_log);
            for (auto& l : r.log) printf("LOG %s\n", l.c_str());
            printf("RESULT cfg=%s loghash=%016llx violation=%s\n", sim::BUILD_CFG, (unsigned long long)r.loghash, r.violation ? r.cls.c_str() : "none");
            if (r.violation) printf("MSG %s\n", r.msg.c_str());
            return r.violation ? 1 : 0;
        }
        ChildResult r0 = run_in_child(p, c, sseed, false);
        if (!r0.violation) { printf("MINIMIZE no-violation\n"); return 0; }
        int tests = 0;
        Plan m = minimise(p, r0.cls, c, sseed, &tests);
        write_file(c.out_path, m.text());
        ChildResult r1 = run_in_child(m, c, sseed, false);
        printf("MINIMIZE cls=%s ops_before=%zu ops_after=%zu tests=%d still=%d\n", r0.cls.c_str(), p.ops.size(), m.ops.size(), tests, (int)(r1.violation && r1.cls == r0.cls));
        printf("MSG %s\n", r1.msg.c_str());
        return 1;
    }
    if (c.cmd != "run") { fprintf(stderr, "unknown command\n"); return 3; }

    sim::init(env::MAXT);
    Stats agg;
    std::set<u64> nontrivial_plans;
    std::vector<std::string> samples;
    double t0 = now_s();
    long done = 0; u64 ops_total = 0;
    u64 clock_min = ~0ull, clock_max = 0;
    std::string hashes;
    int exit_code = 0;
    for (long r = c.start + c.worker; r < c.start + c.runs; r += c.nworkers) {
        if (c.budget_s > 0 && now_s() - t0 > c.budget_s) break;
        u64 rs = run_seed(c.seed, c.prop, (u64)r);
        if (c.fresh && done > 0) break;      // a fresh plan is the first and only run of its process
        Plan p = gen::make(c.prop, rs, (int)(r % 1000000), c.fresh);
        printf("START %ld\n", r); fflush(stdout);
        watchdog(90);      // a call that never returns ends the worker (SIGPROF), the driver replays the run
        u64 lh = 0; bool nt = false; int ops_run = 0;
        Finding f = check_plan(p, c, rs, agg, &lh, &nt, &ops_run);
        ++done; ops_total += ops_run;
        for (auto& o : p.ops) for (u64 t : o.clock) { if (t < clock_min) clock_min = t; if (t > clock_max) clock_max = t; }
        if (f.found) {
            std::string path = strf("%s/cand-%s-%ld.plan", c.outdir.c_str(), c.prop.c_str(), r);
            write_file(path, f.plan.text());
            printf("CANDIDATE run=%ld class=%s plan=%s\nMSG %s\n", r, vclass(f.v).c_str(), path.c_str(), f.v.msg.c_str());
            fflush(stdout);
            exit_code = 10;
            break;      // the process is not reused after a violation
        }
        if (c.twice) {
            u64 lh2 = 0; Stats dummy;
            Cfg c2 = c; c2.enumerate = false; c2.fills = false;
            check_plan(p, c2, rs, dummy, &lh2, nullptr, nullptr);
            if (lh2 != lh) { printf("NONDET run=%ld %016llx %016llx\n", r, (unsigned long long)lh, (unsigned long long)lh2); fflush(stdout); exit_code = 2; break; }
            agg.add("determinism_pairs");
        }
        if (nt) nontrivial_plans.insert(p.hash());
        hashes += strf("%ld:%016llx\n", r, (unsigned long long)lh);
        if (samples.size() < 3 && nt && p.ops.size() < 40) samples.push_back(p.text());
    }
    double wall = now_s() - t0;
    // result file for the driver
    std::string j = "{";
    j += strf("\"worker\":%d,\"runs\":%ld,\"ops\":%llu,\"wall_s\":%.3f,\"cfg\":\"%s\",\"guards\":%u,\"guards_hit\":%u,", c.worker, done, (unsigned long long)ops_total, wall, sim::BUILD_CFG, sim::num_guards(), sim::guards_hit());
    j += strf("\"clock_min\":%llu,\"clock_max\":%llu,", (unsigned long long)(clock_min == ~0ull ? 0 : clock_min), (unsigned long long)clock_max);
    j += "\"stats\":" + stats_json(agg) + ",";
    u64 pairs = 0, scheds = 0; for (auto& kv : agg.c) { if (kv.first.rfind("pair_", 0) == 0) ++pairs; if (kv.first.rfind("sched_", 0) == 0) ++scheds; }
    j += strf("\"preemption_pairs\":%llu,\"schedules\":%llu,", (unsigned long long)pairs, (unsigned long long)scheds);
    j += "\"nontrivial\":[";
    { bool first = true; for (u64 h : nontrivial_plans) { j += strf("%s\"%016llx\"", first ? "" : ",", (unsigned long long)h); first = false; } }
    j += "],\"samples\":[";
    for (size_t i = 0; i < samples.size(); ++i) j += strf("%s\"%s\"", i ? "," : "", json_escape(samples[i]).c_str());
    j += "]}";
    int tag = c.tag >= 0 ? c.tag : c.worker;
    write_file(strf("%s/worker-%s-%d.json", c.outdir.c_str(), c.prop.c_str(), tag), j);
    write_file(strf("%s/hashes-%s-%d.txt", c.outdir.c_str(), c.prop.c_str(), tag), hashes);
    printf("DONE runs=%ld wall=%.2f\n", done, wall);
    fflush(stdout);
    _exit(exit_code);
}

// Plan generators: model-guided, boundary-biased, varied per run (swarm). The generator simulates the
// history on the reference model so that phrases and serialised images fed to later operations belong to
// seeds the history really produced. Plans are explicit: executing one never consults the generator.
#include "sim.h"
#include "env.h"

namespace gen {

static const u64 EPOCH = model::EPOCH, STEP = model::STEP;

struct G {
    Rng rng;
    Plan plan;
    unsigned mask = 0;
    int kdf_mode = 0;
    std::map<std::pair<int, int>, AbsSeed> seeds;
    std::vector<int> langs_enabled;
    int alloc_fail_pct = 0;
    int ntasks = 1;
    explicit G(u64 seed) : rng(seed) {}

    int nlangs() const { return (int)model::langs.size(); }
    int pick_lang() { return langs_enabled[rng.below(langs_enabled.size())]; }
    unsigned pick_coin() {
        static const unsigned c[] = {0, 1, 2, 1023, 1024, 2047};
        return rng.chance(2, 3) ? c[rng.below(6)] : (unsigned)rng.below(2048);
    }
    Op& emit(int kind, int task, int slot) {
        Op o; o.kind = kind; o.task = task; o.slot = slot;
        plan.ops.push_back(o);
        return plan.ops.back();
    }
    bool live(int t, int s) { return seeds.count({t, s}) > 0; }
    int free_slot(int t) { std::vector<int> v; for (int s = 0; s < 6; ++s) if (!live(t, s)) v.push_back(s); return v.empty() ? -1 : v[rng.below(v.size())]; }
    int free_slot_wide(int t) { for (int s = 0; s < 62; ++s) if (!live(t, s)) return s; return -1; }
    int live_slot(int t) { std::vector<int> v; for (int s = 0; s < 64; ++s) if (live(t, s)) v.push_back(s); return v.empty() ? -1 : v[rng.below(v.size())]; }

    u64 maybe_fail() { return (alloc_fail_pct && (int)rng.below(100) < alloc_fail_pct) ? 1 : 0; }

    // ---- arguments
    bytes secret_bytes(int kind) {
        bytes b(19);
        for (auto& x : b) x = (u8)rng.next();
        switch (kind) {
        case 1: std::fill(b.begin(), b.end(), 0); break;
        case 2: std::fill(b.begin(), b.end(), 0xFF); break;
        case 3: { std::fill(b.begin(), b.end(), 0); unsigned bit = (unsigned)rng.below(152); b[bit / 8] = (u8)(0x80 >> (bit % 8)); break; }
        case 4: { std::fill(b.begin(), b.end(), 0xFF); unsigned bit = (unsigned)rng.below(152); b[bit / 8] &= (u8)~(0x80 >> (bit % 8)); break; }
        case 5: b[18] |= 0xC0; break;                    // the two bits that must be dropped
        case 6: {                                        // drive every word to one of the longest words of a language
            int li = pick_lang(); const Lang& L = model::langs[li];
            std::vector<int> longw; for (int w = 0; w < 2048; ++w) if (L.words[w].size() + 2 >= L.maxlen_nfkd) longw.push_back(w);
            AbsSeed s; unsigned c[16];
            for (int i = 1; i < 16; ++i) c[i] = (unsigned)longw[rng.below(longw.size())];
            c[0] = 0; model::unpack(c, s);
            memcpy(b.data(), s.secret, 19);
            break;
        }
        default: {
            // now and then the random source delivers something that looks like a fill pattern or a canary: it is as good an
            // answer as any other, and the seed must carry exactly it. (Chosen by a hash of the bytes drawn, not by another draw.)
            u64 h = mix64(0x43414E41, (u64)b[0] | (u64)b[1] << 8 | (u64)b[2] << 16 | (u64)b[3] << 24 | (u64)b[4] << 32);
            if (h % 24 == 0) {
                static const u8 fillv[] = {0xA5, 0x5A, 0xCC, 0xCD, 0xAA, 0x55};
                unsigned k = (unsigned)((h >> 8) % 10);
                for (int i = 0; i < 19; ++i) b[i] = k == 0 ? (u8)~i : k == 1 ? (u8)i : k == 2 ? (u8)(i + 1) : k == 3 ? (u8)(0xFF - 18 + i) : k < 10 ? fillv[k - 4] : 0;
            }
            break;
        }
        }
        return b;
    }
    int secret_kind() { static const int k[] = {0, 0, 0, 0, 1, 2, 3, 3, 4, 5, 6, 6}; return k[rng.below(12)]; }

    u64 last_clock = 0;
    u64 clock_reading() { u64 r = clock_reading_raw(); last_clock = r; return r; }
    u64 clock_reading_raw() {
        if (last_clock >= EPOCH && last_clock < EPOCH + STEP * 1024 && rng.chance(1, 6)) {
            // related to the previous reading: just across the next month boundary (less than a month later), or a small step
            u64 next = EPOCH + ((last_clock - EPOCH) / STEP + 1) * STEP;
            switch (rng.below(3)) { case 0: return next + rng.below(3) - 1; case 1: return last_clock + rng.below(3600); default: return next - 1 - rng.below(1000); }
        }
        switch (rng.below(14)) {
        case 0: return 0;
        case 1: return ~0ull;
        case 2: return EPOCH - 1;
        case 3: return EPOCH;
        case 4: return EPOCH + STEP * 1024 - 1;
        case 5: return EPOCH + STEP * 1024 + rng.below(3) - 1;
        case 6: { u64 k = rng.below(1025); return EPOCH + k * STEP + rng.below(3) - 1; }       // month boundary +-1
        case 7: return (1ull << 32) + rng.below(3) - 1;
        case 8: return (1ull << 63) + rng.below(3) - 1;
        case 9: return ~0ull - 1;
        case 10: return rng.next();
        case 11: return rng.below(EPOCH);
        default: return EPOCH + rng.below(STEP * 1024);
        }
    }

    std::string ascii_pw() { std::string s; int n = 8 + (int)rng.below(24); for (int i = 0; i < n; ++i) s += (char)(33 + rng.below(94)); return s; }
    std::string password() {
        switch (rng.below(9)) {
        case 0: return "";
        case 1: return "a";
        case 2: { std::string s = ascii_pw(); s += "\xC3\xA9"; s += ascii_pw(); return s; }                   // composed e-acute in the middle
        case 3: { std::string s = ascii_pw(); s += "e\xCC\x81"; s += ascii_pw(); return s; }                 // the same, decomposed
        case 4: { std::string s = "\xEF\xBC\xA1\xE3\x8E\x8F"; s += ascii_pw(); return s; }                    // compatibility characters
        case 5: { std::string s; int n = 300 + (int)rng.below(STRSZ - 1 - 300); for (int i = 0; i < n; ++i) s += (char)(97 + rng.below(26)); return s; }
        case 6: { std::string s = "\xED\x95\x9C\xEA\xB8\x80"; s += ascii_pw(); s += "\xC3\xB1"; return s; } // Hangul + n-tilde
        case 7: {   // code points that are easy to mistreat: byte order mark, zero-width joiner, no-break space, soft hyphen, a leading combining mark
            static const char* sp[] = {"\xEF\xBB\xBF", "\xE2\x80\x8D", "\xC2\xA0", "\xC2\xAD", "\xCC\x81", "\xEF\xBF\xBD", "\xF0\x9F\x94\x91"};
            std::string a = ascii_pw();
            switch (rng.below(3)) { case 0: return std::string(sp[rng.below(7)]) + a; case 1: return a + sp[rng.below(7)]; default: return std::string(sp[rng.below(7)]); }
        }
        default: return ascii_pw();
        }
    }

    // ---- phrases
    static std::vector<std::string> split_cp(const std::string& s) {
        std::vector<std::string> v; size_t i = 0;
        while (i < s.size()) { size_t n = 1; while (i + n < s.size() && ((u8)s[i + n] & 0xC0) == 0x80) ++n; v.push_back(s.substr(i, n)); i += n; }
        return v;
    }
    // a permitted spelling of word w of language L
    std::string spell(const Lang& L, int w, int how) {
        const std::string& full = L.words[w];
        if (!L.prefix || how == 0) return full;
        // characters: base letter plus following combining marks
        std::vector<std::string> ch;
        for (auto& cp : split_cp(full)) { if (!ch.empty() && (u8)cp[0] >= 0x80) ch.back() += cp; else ch.push_back(cp); }
        size_t keep = ch.size();
        if (how & 1) { if (ch.size() > 4) keep = 4 + rng.below(ch.size() - 3); }
        if ((how & 6) == 6 && ch.size() >= 4) keep = std::max<size_t>(4, keep);
        std::string r;
        for (size_t i = 0; i < keep && i < ch.size(); ++i) {
            if (L.accents && (how & 2) && rng.chance(1, 2)) r += ch[i][0];     // drop the accent
            else r += ch[i];
        }
        return r;
    }
    std::string valid_phrase(const AbsSeed& s, int li, unsigned coin, int variant) {
        const Lang& L = model::langs[li];
        unsigned idx[16]; model::phrase_nfkd(s, li, coin, idx);
        std::string r;
        bool ascii_sep = (variant & 8) != 0;
        static const char* SEPS[3] = {" ", "\xE3\x80\x80", "\xC2\xA0"};      // all normalise (NFKD) to one ASCII space
        int wide = (variant & 128) ? (int)rng.below(16) : -1;
        for (int i = 0; i < 16; ++i) {
            if (i) r += (variant & 64) ? std::string(SEPS[rng.below(3)]) : (ascii_sep ? std::string(" ") : L.sep);
            std::string w = spell(L, (int)idx[i], variant & 7);
            if (i == wide) {    // typed with a full-width input method: compatibility forms of the ASCII letters
                std::string fw;
                for (unsigned char c : w) { if (c >= 'a' && c <= 'z') { unsigned cp = 0xFF41 + (c - 'a'); fw += (char)0xEF; fw += (char)(0x80 | ((cp >> 6) & 0x3F)); fw += (char)(0x80 | (cp & 0x3F)); } else fw += (char)c; }
                w = fw;
            }
            r += w;
        }
        if (variant & 16) r += " ";
        if (variant & 32) r = model::nfc_raw(r);     // as a user types it (composed)
        return r;
    }
    // an input derived from a valid phrase that must be refused (or, rarely, is another valid phrase: the model decides)
    std::string broken_phrase(const AbsSeed& s, int li, unsigned coin, int how) {
        const Lang& L = model::langs[li];
        unsigned idx[16]; model::phrase_nfkd(s, li, coin, idx);
        std::vector<std::string> w;
        for (int i = 0; i < 16; ++i) w.push_back(L.words[idx[i]]);
        std::string sep = " ";
        switch (how % 15) {
        case 0: w[rng.below(16)] = L.words[rng.below(2048)]; break;                                   // another word of the list
        case 1: { int lj = (int)rng.below(model::langs.size()); w[rng.below(16)] = model::langs[lj].words[rng.below(2048)]; break; }   // foreign word
        case 2: { size_t i = rng.below(16); auto cp = split_cp(w[i]); std::string t; for (size_t k = 0; k < 3 && k < cp.size(); ++k) t += cp[k]; w[i] = t; break; }  // too short
        case 3: w[rng.below(16)] += "x"; break;                                                            // continues with other characters
        case 4: w.erase(w.begin() + rng.below(16)); break;                                                 // missing word
        case 5: w.insert(w.begin() + rng.below(17), L.words[rng.below(2048)]); break;                     // extra word
        case 6: { size_t i = rng.below(15); w[i] += " "; break; }                                          // doubled space
        case 7: w[0] = " " + w[0]; break;                                                                  // leading space
        case 8: { size_t a = rng.below(16), b = rng.below(16); std::swap(w[a], w[b]); break; }             // transposition
        case 9: w[15] += "  "; break;                                                                      // two trailing spaces
        case 13: { size_t i = rng.below(16); if (!w[i].empty() && w[i][0] >= 'a' && w[i][0] <= 'z') w[i][0] = (char)(w[i][0] - 32); break; }   // a capitalised word (phone keyboards)
        case 14: { for (auto& x : w) for (auto& c : x) if (c >= 'a' && c <= 'z') c = (char)(c - 32); break; }                       // caps lock
        case 11: { w.erase(w.begin() + rng.below(16)); size_t i = rng.below(14); w[i] += " "; break; }       // a missing word made up for by an empty one (16 tokens)
        case 12: { w.erase(w.begin() + rng.below(16)); w[0] = " " + w[0]; break; }                       // the same with a leading space
        case 10: { std::string tail; int n = 40 + (int)rng.below(60); for (int i = 0; i < n; ++i) tail += (i % 7 == 0) ? " " : "\xE3\x81\x82"; w[15] += tail; break; }   // a long pasted note after the phrase (over-long once decomposed)
        }
        std::string r;
        for (size_t i = 0; i < w.size(); ++i) { if (i) r += sep; r += w[i]; }
        return r;
    }
    // a real phrase followed by a pasted note: longer than the phrase buffer once decomposed
    std::string overlong_phrase(const AbsSeed& s, unsigned coin) {
        int li = model::lang_by_name_en(rng.chance(1, 2) ? "Japanese" : "Korean");
        if (li < 0) li = 0;
        std::string r = valid_phrase(s, li, coin, rng.chance(1, 2) ? 32 : 0);
        while (model::nfkd_raw(r).size() < STRSZ + 40) r += rng.chance(1, 6) ? " " : "\xE3\x81\x82";
        return r;
    }
    std::string junk_phrase() {
        switch (rng.below(5)) {
        case 0: return "";
        case 1: return " ";
        case 2: return std::string(400 + rng.below(400), 'a');
        case 3: { std::string s; for (int i = 0; i < 300; ++i) s += "a "; return s; }
        default: { std::string s; int n = 1 + (int)rng.below(20); for (int i = 0; i < n; ++i) { if (i) s += " "; s += model::langs[0].words[rng.below(2048)]; } return s; }
        }
    }

    // ---- operations with model tracking
    bool zero_on_invalid = false;
    bool allow_chain = true;     // chained operations (the library's own outputs as inputs)
    void config(int fill, int kdfm, int fulllen = 0) {
        Op& o = emit(OP_CONFIG, 0, 0);
        // swarm over environment knobs: block alignment (8 mod 16), LIFO address reuse, time zone of the process
        u64 knobs = (rng.chance(1, 4) ? 1ull << 10 : 0) | (rng.chance(1, 3) ? 1ull << 11 : 0) | ((rng.chance(1, 3) ? rng.below(4) : 0) << 12);
        if (zero_on_invalid) knobs |= 1ull << 14;
        if (rng.chance(1, 4)) knobs |= 1ull << 15;      // errno left set by dependencies
        if (rng.chance(1, 4)) knobs |= 1ull << 16;      // alias-unsafe normalisers
        if (rng.chance(1, 4)) knobs |= 1ull << 17;      // failing memory-locking calls
        o.a = (u64)fill | ((u64)kdfm << 8) | ((u64)fulllen << 9) | knobs; o.b = rng.next() >> 1; kdf_mode = kdfm;
    }
    void inject(int gen, unsigned opt) { Op& o = emit(OP_INJECT, 0, 0); o.a = gen; o.b = opt; }
    void enable(int task, u64 m) { Op& o = emit(OP_ENABLE, task, 0); o.a = m; mask = (unsigned)m & 7; }
    void create(int t, int s, u64 features, int skind, std::vector<u64> clock) {
        Op& o = emit(OP_CREATE, t, s);
        o.a = features; o.data = secret_bytes(skind); o.clock = clock; o.fail = maybe_fail();
        if (o.fail || !model::supported((unsigned)features & 7, mask)) return;
        AbsSeed sd; memcpy(sd.secret, o.data.data(), 19); sd.secret[18] &= 0x3F;
        sd.features = (unsigned)features & 7;
        sd.birthday = model::birthday_index(clock.empty() ? env::DEFAULT_CLOCK : clock[0], nullptr);
        seeds[{t, s}] = sd;
    }
    void load_bytes(int t, int s, const u8 in[32]) {
        Op& o = emit(OP_LOAD, t, s); o.data.assign(in, in + 32); o.fail = maybe_fail();
        AbsSeed m;
        if (!o.fail && model::parse(in, m) == ST_OK && model::supported(m.features, mask)) seeds[{t, s}] = m;
    }
    void load_seed(int t, int s, const AbsSeed& sd) { u8 b[32]; model::serialise(sd, b); load_bytes(t, s, b); }
    void decode(int t, int s, const std::string& phrase, unsigned coin, int lang /* -1 auto */, bool nolang = false) {
        Op& o = emit(lang < 0 ? OP_DECODE : OP_DECODEX, t, s);
        o.data.assign(phrase.begin(), phrase.end()); o.b = coin; o.a = lang < 0 ? (nolang ? 1 : 0) : (u64)lang; o.fail = maybe_fail();
        model::Decoded d = model::decode(phrase, coin, lang);
        if (!o.fail && d.status == ST_OK && model::supported(d.seed.features, mask)) seeds[{t, s}] = d.seed;
    }
    // operations that do not allocate today carry fault masks too: a refactoring may make them allocate
    // chained operations: the library's own latest output of that task is the input
    void decode_chain(int t, int s, const AbsSeed& src, bool explicit_lang) {
        Op& o = emit(explicit_lang ? OP_DECODEX : OP_DECODE, t, s); o.chain = 1; o.fail = maybe_fail();
        if (!o.fail && model::supported(src.features, mask)) seeds[{t, s}] = src;
    }
    void load_chain(int t, int s, const AbsSeed& src) {
        Op& o = emit(OP_LOAD, t, s); o.chain = 1; o.fail = maybe_fail();
        if (!o.fail && model::supported(src.features, mask)) seeds[{t, s}] = src;
    }
    void encode(int t, int s, int lang, unsigned coin) { Op& o = emit(OP_ENCODE, t, s); o.a = lang; o.b = coin; o.fail = maybe_fail(); }
    void store(int t, int s) { Op& o = emit(OP_STORE, t, s); o.fail = maybe_fail(); }
    void keygen(int t, int s, unsigned coin, u64 size) {
        Op& o = emit(OP_KEYGEN, t, s); o.a = coin; o.b = size; o.fail = maybe_fail();
        // where the caller's key buffer lies and how large the caller says it is (sim.h: keygen_off/keygen_huge). Derived from a
        // hash, not from the generator's stream, so that every other choice of the plan stays what it was.
        u64 h = mix64(0x4B455942, mix64(plan.ops.size(), size * 2048 + coin));
        if (h % 3 == 0) o.b |= (1 + (h >> 8) % 7) << 16;               // key buffer at an odd offset from an aligned address
        if ((h >> 16) % 12 == 0) o.b |= (1 + (h >> 24) % 3) << 20;     // key size of 4 GiB or more (the KDF stub fills a prefix only)
    }
    void crypt(int t, int s, const std::string& pw) {
        Op& o = emit(OP_CRYPT, t, s); o.data.assign(pw.begin(), pw.end()); o.fail = maybe_fail();
        auto it = seeds.find({t, s});
        if (it == seeds.end()) return;
        std::string n = model::lib_normalise(pw);
        u8 mk[32];
        int save = env::E.kdf_mode; env::E.kdf_mode = kdf_mode;
        env::kdf_stream(bytes(n.begin(), n.end()), bytes(model::CRYPT_SALT, model::CRYPT_SALT + 16), 10000, mk, 32);
        env::E.kdf_mode = save;
        model::apply_mask(it->second, mk);
    }
    void getters(int t, int s) {
        switch (rng.below(3)) { case 0: emit(OP_GETB, t, s); break; case 1: { Op& o = emit(OP_GETF, t, s); o.a = rng.chance(1, 2) ? rng.below(8) : rng.next(); break; } default: emit(OP_ISENC, t, s); }
    }
    void free_seed(int t, int s) { emit(OP_FREE, t, s); seeds.erase({t, s}); }

    // fabricate a seed the library itself might refuse to create
    AbsSeed fabricate(unsigned features, int birthday = -1) {
        AbsSeed sd; bytes b = secret_bytes(secret_kind()); memcpy(sd.secret, b.data(), 19); sd.secret[18] &= 0x3F;
        sd.features = features & 31; sd.birthday = birthday >= 0 ? (unsigned)birthday : (unsigned)rng.below(1024);
        return sd;
    }
    void mutate_image(u8 b[32]) {
        switch (rng.below(9)) {
        case 0: b[rng.below(8)] ^= (u8)(1 << rng.below(8)); break;                    // header
        case 1: b[9] |= 0x80; break;                                                   // top bit of the extra field
        case 2: b[28] |= (u8)(0x40 << rng.below(2)); break;                            // secret beyond 150 bits
        case 3: b[29] = (u8)rng.next(); break;                                         // extra byte
        case 4: b[31] ^= (u8)(0x10 << rng.below(4)); break;                            // footer nibble
        case 5: b[31] ^= 0x08; break;                                                  // bit 11 of the footer
        case 6: b[30] ^= (u8)(1 << rng.below(8)); break;                               // check value
        case 7: b[10 + rng.below(19)] ^= (u8)(1 << rng.below(8)); break;               // secret bit
        case 8: { unsigned v = b[8] | b[9] << 8; v ^= 1u << rng.below(15); b[8] = v & 255; b[9] = (u8)(v >> 8); break; }   // birthday / features
        }
    }
};

// A generic random walk; `w` are per-kind weights.
struct Weights { int create = 10, load = 6, loadbad = 3, decode = 10, decodebad = 5, encode = 8, store = 5, crypt = 5, keygen = 5, get = 5, free_ = 7, freenull = 1, enable = 3, inject = 1, langq = 1, fabricate = 3; };

static void walk(G& g, int nops, const Weights& w, bool allow_reinject) {
    for (int n = 0; n < nops; ++n) {
        int t = (int)g.rng.below(g.ntasks);
        int total = w.create + w.load + w.loadbad + w.decode + w.decodebad + w.encode + w.store + w.crypt + w.keygen + w.get + w.free_ + w.freenull + w.enable + w.inject + w.langq + w.fabricate;
        int r = (int)g.rng.below(total);
        int ls = g.live_slot(t), fs = g.free_slot(t);
        auto take = [&](int wt) { if (r < wt) { r = 1 << 30; return true; } r -= wt; return false; };
        if (take(w.create)) { if (fs >= 0) { std::vector<u64> c{g.clock_reading()}; if (g.rng.chance(1, 8)) c.push_back(g.clock_reading()); g.create(t, fs, g.rng.chance(3, 4) ? g.rng.below(8) : g.rng.next(), g.secret_kind(), c); } }
        else if (take(w.load)) { if (fs >= 0 && ls >= 0) g.load_seed(t, fs, g.seeds[{t, ls}]); }
        else if (take(w.loadbad)) { if (fs >= 0) { AbsSeed sd = ls >= 0 ? g.seeds[{t, ls}] : g.fabricate((unsigned)g.rng.below(8)); u8 b[32]; model::serialise(sd, b); g.mutate_image(b); if (g.rng.chance(1, 6)) for (auto& x : b) x = (u8)g.rng.next(); g.load_bytes(t, fs, b); } }
        else if (take(w.decode)) { if (fs >= 0 && ls >= 0) { int li = g.pick_lang(); unsigned coin = g.pick_coin(); std::string p = g.valid_phrase(g.seeds[{t, ls}], li, coin, (int)g.rng.below(256)); g.decode(t, fs, p, coin, g.rng.chance(1, 2) ? -1 : li, g.rng.chance(1, 8)); } }
        else if (take(w.decodebad)) {
            if (fs >= 0) {
                int li = g.pick_lang(); unsigned coin = g.pick_coin();
                AbsSeed sd = ls >= 0 ? g.seeds[{t, ls}] : g.fabricate(0);
                std::string p;
                switch (g.rng.below(8)) {
                case 0: p = g.junk_phrase(); break;
                case 1: p = g.valid_phrase(sd, li, coin, 0); coin = (coin + 1 + (unsigned)g.rng.below(2047)) & 2047; break;      // wrong coin
                case 2: { p = g.valid_phrase(sd, li, coin, 0); int lj = g.pick_lang(); g.decode(t, fs, p, coin, lj); continue; } // explicit decoding in another language
                default: p = g.broken_phrase(sd, li, coin, (int)g.rng.below(15));
                }
                g.decode(t, fs, p, coin, g.rng.chance(1, 2) ? -1 : li);
            }
        }
        else if (take(w.fabricate)) {
            if (fs >= 0) {
                AbsSeed sd = g.fabricate((unsigned)g.rng.below(32));
                if (g.rng.chance(1, 2)) g.load_seed(t, fs, sd);
                else { int li = g.pick_lang(); unsigned coin = g.pick_coin(); g.decode(t, fs, g.valid_phrase(sd, li, coin, 0), coin, g.rng.chance(1, 2) ? -1 : li); }
            }
        }
        else if (take(w.encode)) { if (ls >= 0) { g.encode(t, ls, g.pick_lang(), g.pick_coin()); if (g.allow_chain && fs >= 0 && g.rng.chance(1, 3)) g.decode_chain(t, fs, g.seeds[{t, ls}], g.rng.chance(1, 2)); } }
        else if (take(w.store)) { if (ls >= 0) { g.store(t, ls); if (g.allow_chain && fs >= 0 && g.rng.chance(1, 3)) g.load_chain(t, fs, g.seeds[{t, ls}]); } }
        else if (take(w.crypt)) { if (ls >= 0) { std::string pw = g.password(); g.crypt(t, ls, pw); if (g.rng.chance(1, 2)) { if (g.rng.chance(1, 3)) g.store(t, ls); g.crypt(t, ls, g.rng.chance(3, 4) ? pw : g.password()); } } }
        else if (take(w.keygen)) { if (ls >= 0) { static const u64 sz[] = {1, 16, 31, 32, 33, 64, 4096}; g.keygen(t, ls, g.pick_coin(), g.rng.chance(3, 4) ? sz[g.rng.below(7)] : 1 + g.rng.below(4096)); } }
        else if (take(w.get)) { if (ls >= 0) g.getters(t, ls); }
        else if (take(w.free_)) { if (ls >= 0) g.free_seed(t, ls); }
        else if (take(w.freenull)) g.emit(OP_FREENULL, t, 0);
        else if (take(w.enable)) g.enable(t, g.rng.chance(3, 4) ? g.rng.below(8) : g.rng.next());
        else if (take(w.inject)) { if (allow_reinject) g.inject((int)g.rng.below(3), (unsigned)g.rng.below(8)); }
        else if (take(w.langq)) { Op& o = g.emit(OP_LANGQ, t, 0); o.a = g.rng.below(16); }
    }
}

// Every plan starts from the same library state whatever ran before it in the process: all eight dependencies
// injected (generation 0) and no feature enabled. Explicit operations, so the replay file carries them too.
// A "fresh" plan is only ever executed as the first and only run of a new process: it does not reset anything, so that the
// library's initial state is part of the history (no enabling call yet, enabling before the first injection, ...).
static bool g_fresh = false;
static void reset_state(G& g) { if (g_fresh) return; g.inject(0, 7); g.enable(0, 0); }
static void prologue(G& g, int fill, int kdfm, int gen, unsigned opt, u64 mask) {
    reset_state(g);
    g.config(fill, kdfm);
    if (g_fresh) {
        switch (g.rng.below(4)) {
        case 0: g.enable(0, mask); g.inject(gen, opt); break;                          // enabling before the first injection
        case 1: g.inject(gen, opt); break;                                             // no enabling call at all: the default (none) is in force
        case 2: g.enable(0, g.rng.below(8)); g.inject(gen, opt); g.enable(0, mask); break;
        default: g.inject(gen, opt); g.enable(0, mask); break;
        }
        return;
    }
    g.inject(gen, opt);
    g.enable(0, mask);
}
static void choose_langs(G& g) {
    int n = g.nlangs();
    g.langs_enabled.clear();
    if (g.rng.chance(1, 3)) { for (int i = 0; i < n; ++i) g.langs_enabled.push_back(i); return; }
    int k = 1 + (int)g.rng.below(3);
    for (int i = 0; i < k; ++i) g.langs_enabled.push_back((int)g.rng.below(n));
}

// A concurrent plan for a property other than C20: several threads work on their own seeds at once; what the
// property speaks about (feature verdicts, birthdays, results of the password operation) must be what each thread
// observes when it runs alone.
static Plan make_concurrent(G& g, const char* prop) {
    g.plan.mode = "preempt";
    g.plan.ntasks = g.ntasks = 2 + (int)g.rng.below(2);
    prologue(g, 1 + (int)g.rng.below(3), (int)g.rng.below(2), (int)g.rng.below(3), (unsigned)g.rng.below(8), 7);
    std::string p(prop);
    // few distinct clock values, shared by the tasks: consecutive creates often fall into the same month, others do not
    std::vector<u64> clocks; { int nc = 2 + (int)g.rng.below(2); for (int i = 0; i < nc; ++i) clocks.push_back(g.rng.chance(1, 2) ? EPOCH + g.rng.below(STEP * 1024) : g.clock_reading()); }
    auto clk = [&]() { return clocks[g.rng.below(clocks.size())] + g.rng.below(1000); };
    for (int t = 0; t < g.ntasks; ++t) {
        if (g.rng.chance(1, 2)) g.create(t, 0, g.rng.below(8), g.secret_kind(), {clk()});
        else g.load_seed(t, 0, g.fabricate((unsigned)g.rng.below(8) | (g.rng.chance(1, 4) ? 16 : 0), (int)g.rng.below(1024)));
    }
    int n = 2 + (int)g.rng.below(4);
    for (int i = 0; i < n; ++i) for (int t = 0; t < g.ntasks; ++t) {
        if (!g.live(t, 0)) continue;
        AbsSeed sd = g.seeds[{t, 0}];
        int li = g.pick_lang(); unsigned coin = g.pick_coin();
        if (g.live(t, 1)) g.free_seed(t, 1);
        if (p == "C12" && g.rng.chance(1, 2)) { g.crypt(t, 0, g.password()); g.store(t, 0); g.emit(OP_ISENC, t, 0); continue; }
        if (p == "C11" && g.rng.chance(2, 3)) { if (g.live(t, 2)) g.free_seed(t, 2); g.create(t, 2, g.rng.below(8), g.secret_kind(), {clk()}); if (g.live(t, 2)) g.emit(OP_GETB, t, 2); continue; }
        if (g.rng.chance(1, 2)) g.decode(t, 1, g.valid_phrase(sd, li, coin, (int)g.rng.below(256)), coin, g.rng.chance(1, 2) ? -1 : li);
        else g.load_seed(t, 1, sd);
        if (g.live(t, 1)) { g.emit(OP_GETB, t, 1); { Op& o = g.emit(OP_GETF, t, 1); o.a = 7; } g.emit(OP_ISENC, t, 1); g.store(t, 1); }
    }
    return g.plan;
}

// ------------------------------------------------------------------------------------------------ per property
static Plan make_C20(u64 seed, int variant);
static Plan make_C13(u64 seed, int variant) {
    if (variant >= 584 && variant % 16 == 15) { Plan p = make_C20(seed, (int)(seed % 299)); p.prop = "C13"; return p; }     // seeds of several threads must not affect each other either
    G g(seed); g.plan.prop = "C13";
    choose_langs(g);
    if (variant < 584) {
        // warm-up: every sequence of length 1..3 over a reduced alphabet of eight macro-operations
        int len = variant < 8 ? 1 : variant < 72 ? 2 : 3, code = variant < 8 ? variant : variant < 72 ? variant - 8 : variant - 72;
        g.plan.ntasks = g.ntasks = 1;
        prologue(g, (int)g.rng.below(4), (int)g.rng.below(2), 0, 7, 1);
        int gen = 0; unsigned m = 1;
        for (int i = 0; i < len; ++i) {
            int letter = code % 8; code /= 8;
            bool l0 = g.live(0, 0);
            switch (letter) {
            case 0: if (l0) g.free_seed(0, 0); g.create(0, 0, g.rng.below(2), g.secret_kind(), {g.clock_reading()}); break;
            case 1: if (!l0) g.create(0, 0, 1, 0, {g.clock_reading()});
                    if (g.live(0, 0)) { if (g.live(0, 1)) g.free_seed(0, 1); AbsSeed sd = g.seeds[{0, 0}]; int li = g.pick_lang(); unsigned coin = g.pick_coin(); g.encode(0, 0, li, coin); g.decode(0, 1, g.valid_phrase(sd, li, coin, (int)g.rng.below(256)), coin, g.rng.chance(1, 2) ? -1 : li); } break;
            case 2: if (!l0) g.create(0, 0, 1, 0, {g.clock_reading()});
                    if (g.live(0, 0)) { if (g.live(0, 1)) g.free_seed(0, 1); g.store(0, 0); g.load_seed(0, 1, g.seeds[{0, 0}]); } break;
            case 3: if (!l0) g.create(0, 0, 1, 0, {g.clock_reading()}); if (g.live(0, 0)) { g.crypt(0, 0, g.password()); g.store(0, 0); } break;
            case 4: if (!l0) g.create(0, 0, 1, 0, {g.clock_reading()}); if (g.live(0, 0)) g.keygen(0, 0, g.pick_coin(), 32); if (g.live(0, 1)) g.keygen(0, 1, g.pick_coin(), 32); break;
            case 5: if (g.live(0, 1)) g.free_seed(0, 1); else if (l0) g.free_seed(0, 0); else g.emit(OP_FREENULL, 0, 0); break;
            case 6: m ^= 1; g.enable(0, m); break;
            default: gen = (gen + 1) % 3; g.inject(gen, (unsigned)g.rng.below(8)); break;
            }
        }
        if (g.live(0, 0)) { g.store(0, 0); g.emit(OP_GETB, 0, 0); }
        if (g.live(0, 1)) { g.store(0, 1); g.emit(OP_ISENC, 0, 1); }
        return g.plan;
    }
    g.ntasks = 1 + (int)g.rng.below(3); g.plan.ntasks = g.ntasks;
    bool faults = (variant % 2) == 1;
    static const int rates[] = {5, 20, 50};
    g.alloc_fail_pct = faults ? rates[g.rng.below(3)] : 0;
    prologue(g, faults ? (int)g.rng.below(4) : (int)g.rng.below(4), (int)g.rng.below(2), (int)g.rng.below(3), (unsigned)g.rng.below(8), g.rng.below(8));
    Weights w;
    // swarm: switch some operation kinds off
    int* ws[] = {&w.load, &w.loadbad, &w.decode, &w.decodebad, &w.encode, &w.store, &w.crypt, &w.keygen, &w.get, &w.enable, &w.inject, &w.fabricate};
    for (int* x : ws) if (g.rng.chance(1, 4)) *x = 0;
    // mostly short histories; now and then a long one (counters, accumulating state, hundreds of seeds created and freed)
    walk(g, (variant % 250 == 249) ? 1200 + (int)g.rng.below(1200) : 3 + (int)g.rng.below(38), w, true);
    return g.plan;
}

static Plan make_C04(u64 seed, int variant) {
    G g(seed); g.plan.prop = "C04";
    choose_langs(g);
    if (variant % 6 == 5) {
        // the same inputs must reach the KDF when several threads derive keys from their own seeds at once
        g.plan.mode = "preempt";
        g.plan.ntasks = g.ntasks = 2 + (int)g.rng.below(2);
        prologue(g, 1 + (int)g.rng.below(3), 0, (int)g.rng.below(3), (unsigned)g.rng.below(8), 7);
        for (int t = 0; t < g.ntasks; ++t) {
            if (g.rng.chance(1, 2)) g.create(t, 0, g.rng.below(8), g.secret_kind(), {g.clock_reading()});
            else g.load_seed(t, 0, g.fabricate((unsigned)g.rng.below(8) | (g.rng.chance(1, 4) ? 16 : 0)));
        }
        int n = 2 + (int)g.rng.below(5);
        for (int i = 0; i < n; ++i) for (int t = 0; t < g.ntasks; ++t) g.keygen(t, 0, g.pick_coin(), 32);
        return g.plan;
    }
    g.ntasks = 1 + (int)g.rng.below(2); g.plan.ntasks = g.ntasks;
    g.alloc_fail_pct = (variant % 4 == 3) ? 10 : 0;
    prologue(g, 1 + (int)g.rng.below(3), (int)g.rng.below(2), (int)g.rng.below(3), (unsigned)g.rng.below(8), 7);
    // one abstract seed walked through random paths; keygen at every stop
    int t = 0;
    static const u64 sz[] = {1, 16, 31, 32, 33, 64, 100, 4096};
    auto kg = [&](int s) { if (g.live(t, s)) g.keygen(t, s, g.pick_coin(), g.rng.chance(3, 4) ? sz[g.rng.below(8)] : 1 + g.rng.below(4096)); };
    int cur = 0;
    if (g.rng.chance(1, 2)) g.create(t, cur, g.rng.below(8), g.secret_kind(), {g.clock_reading()});
    else g.load_seed(t, cur, g.fabricate((unsigned)g.rng.below(8) | (g.rng.chance(1, 4) ? 16 : 0)));
    kg(cur);
    int steps = 2 + (int)g.rng.below(10);
    for (int i = 0; i < steps && g.live(t, cur); ++i) {
        int nxt = (cur + 1) % 6;
        if (g.live(t, nxt)) g.free_seed(t, nxt);
        AbsSeed sd = g.seeds[{t, cur}];
        switch (g.rng.below(7)) {
        case 0: { int li = g.pick_lang(); unsigned coin = g.pick_coin(); g.encode(t, cur, li, coin); if (g.rng.chance(1, 2)) g.decode_chain(t, nxt, sd, g.rng.chance(1, 2)); else g.decode(t, nxt, g.valid_phrase(sd, li, coin, (int)g.rng.below(256)), coin, g.rng.chance(1, 2) ? -1 : li); break; }
        case 1: g.store(t, cur); if (g.rng.chance(1, 2)) g.load_chain(t, nxt, sd); else g.load_seed(t, nxt, sd); break;
        case 2: { std::string pw = g.password(); g.crypt(t, cur, pw); kg(cur); g.crypt(t, cur, pw); nxt = cur; break; }
        case 3: { std::string pw = g.password(); g.crypt(t, cur, pw); nxt = cur; break; }
        case 5: {   // a seed the library itself would not create (any of the 32 feature values); if the library accepts it, its key derivation is judged too
            AbsSeed fs = g.fabricate((unsigned)g.rng.below(32));
            if (g.rng.chance(1, 2)) g.load_seed(t, nxt, fs);
            else { int li = g.pick_lang(); unsigned coin = g.pick_coin(); g.decode(t, nxt, g.valid_phrase(fs, li, coin, 0), coin, g.rng.chance(1, 2) ? -1 : li); }
            g.keygen(t, nxt, g.pick_coin(), 32);
            if (!g.live(t, nxt)) { Op& f = g.emit(OP_FREE, t, nxt); (void)f; }
            break;
        }
        default: g.create(t, nxt, g.rng.below(8), g.secret_kind(), {g.clock_reading()}); break;
        }
        if (g.rng.chance(1, 5)) g.enable(t, g.rng.chance(1, 2) ? 7 : g.rng.below(8));      // the set of enabled features may change while seeds are alive
        if (g.live(t, nxt)) { if (nxt != cur && g.rng.chance(1, 2)) { kg(cur); g.free_seed(t, cur); } cur = nxt; }
        kg(cur);
    }
    return g.plan;
}

static Plan make_C10(u64 seed, int variant) {
    G g(seed); g.plan.prop = "C10";
    choose_langs(g);
    if (variant < 64) {
        // exhaustive part: 8 masks x 32 feature values x 4 entry points, 16 cases per plan
        g.langs_enabled = {(int)g.rng.below(g.nlangs())};
        g.plan.ntasks = g.ntasks = 1;
        prologue(g, (int)g.rng.below(4), 0, 0, 7, 0);
        for (int c = variant * 16; c < variant * 16 + 16; ++c) {
            unsigned m = (c >> 7) & 7, f = (c >> 2) & 31; int entry = c & 3;
            g.enable(0, m | (g.rng.chance(1, 2) ? (g.rng.next() & ~7ull & 0xFFFFFFFFull) : 0));
            AbsSeed sd = g.fabricate(f);
            int li = g.pick_lang(); unsigned coin = g.pick_coin();
            switch (entry) {
            case 0: g.create(0, 0, f, g.secret_kind(), {g.clock_reading()}); break;
            case 1: g.load_seed(0, 0, sd); break;
            case 2: g.decode(0, 0, g.valid_phrase(sd, li, coin, 0), coin, -1); break;
            default: g.decode(0, 0, g.valid_phrase(sd, li, coin, 0), coin, li); break;
            }
            if (g.live(0, 0)) { Op& o = g.emit(OP_GETF, 0, 0); o.a = g.rng.chance(1, 2) ? 7 : g.rng.next(); g.emit(OP_ISENC, 0, 0); g.store(0, 0); g.free_seed(0, 0); }
        }
        return g.plan;
    }
    g.ntasks = 1 + (int)g.rng.below(3); g.plan.ntasks = g.ntasks;
    if (variant % 8 == 7) return make_concurrent(g, "C10");
    prologue(g, (int)g.rng.below(4), (int)g.rng.below(2), (int)g.rng.below(3), (unsigned)g.rng.below(8), g.rng.below(8));
    Weights w; w.enable = 12; w.fabricate = 14; w.crypt = 5; w.keygen = 0; w.decodebad = 1; w.loadbad = 1; w.get = 8; w.inject = 2;
    walk(g, 6 + (int)g.rng.below(30), w, true);
    return g.plan;
}

static Plan make_C11(u64 seed, int variant) {
    G g(seed); g.plan.prop = "C11";
    choose_langs(g);
    g.plan.ntasks = g.ntasks = 1 + (int)g.rng.below(2);
    if (variant >= 128 && variant % 8 == 7) return make_concurrent(g, "C11");
    unsigned opt = (unsigned)g.rng.below(8);       // both the injected clock and the libc fallback
    prologue(g, (int)g.rng.below(4), (int)g.rng.below(2), (int)g.rng.below(3), opt, 7);
    std::vector<u64> readings;
    if (variant < 128) {
        // deterministic sweep: 8 month boundaries per plan, each on both sides
        for (int k = variant * 8; k < variant * 8 + 9 && k <= 1024; ++k) { u64 b = EPOCH + (u64)k * STEP; readings.push_back(b - 1); readings.push_back(b); if (g.rng.chance(1, 2)) readings.push_back(b + 1); }
    } else {
        int n = 2 + (int)g.rng.below(8);
        for (int i = 0; i < n; ++i) readings.push_back(g.clock_reading());
    }
    for (u64 r : readings) {
        int t = (int)g.rng.below(g.ntasks);
        int s = g.free_slot(t);
        if (s < 0) { int l = g.live_slot(t); g.free_seed(t, l); s = l; }
        std::vector<u64> c{r};
        // a clock that tells something else when asked again during the same call (error value, zero, a month later, earlier):
        // a correct library asks once; one that asks twice must still report a birthday that one of its readings explains.
        // Hash-derived, so that the rest of the plan stays what it was.
        { u64 h = mix64(0x434C4B32, mix64(r, (u64)s * 64 + t));
          if (h % 3 == 0) { static const u64 alt[] = {~0ull, 0, ~0ull - 1, EPOCH - 1}; u64 k = (h >> 8) % 7;
                            c.push_back(k < 4 ? alt[k] : k == 4 ? r + STEP : k == 5 ? r - STEP / 2 : ~0ull);
                            if ((h >> 16) % 2) c.push_back((h >> 24) % 2 ? ~0ull : r); } }
        g.create(t, s, g.rng.below(8), g.secret_kind(), c);
        if (!g.live(t, s)) continue;
        g.emit(OP_GETB, t, s);
        // walk the seed through transformations
        int steps = (int)g.rng.below(4);
        for (int i = 0; i < steps; ++i) {
            int n2 = g.free_slot(t);
            AbsSeed sd = g.seeds[{t, s}];
            switch (g.rng.below(4)) {
            case 0: if (n2 >= 0) { int li = g.pick_lang(); unsigned coin = g.pick_coin(); g.encode(t, s, li, coin); if (g.rng.chance(1, 2)) g.decode_chain(t, n2, sd, g.rng.chance(1, 2)); else g.decode(t, n2, g.valid_phrase(sd, li, coin, (int)g.rng.below(256)), coin, g.rng.chance(1, 2) ? -1 : li); if (g.live(t, n2)) { g.emit(OP_GETB, t, n2); } } break;
            case 1: if (n2 >= 0) { g.store(t, s); if (g.rng.chance(1, 2)) g.load_chain(t, n2, sd); else g.load_seed(t, n2, sd); if (g.live(t, n2)) g.emit(OP_GETB, t, n2); } break;
            case 2: g.crypt(t, s, g.password()); g.emit(OP_GETB, t, s); break;
            default: g.emit(OP_GETB, t, s); break;
            }
        }
        if (g.rng.chance(1, 2)) g.free_seed(t, s);
    }
    return g.plan;
}

static Plan make_C12(u64 seed, int variant) {
    G g(seed); g.plan.prop = "C12";
    choose_langs(g);
    g.plan.ntasks = g.ntasks = 1 + (int)g.rng.below(2);
    if (variant % 8 == 7) return make_concurrent(g, "C12");
    g.alloc_fail_pct = (variant % 4 == 2) ? 30 : 0;
    prologue(g, 1 + (int)g.rng.below(3), 1, (int)g.rng.below(3), (unsigned)g.rng.below(8), g.rng.chance(1, 2) ? 7 : (7 | (g.rng.next() << 3)));
    int t = 0;
    int nseeds = 1 + (int)g.rng.below(3);
    for (int k = 0; k < nseeds; ++k) {
        int s = g.free_slot(t); if (s < 0) break;
        if (g.rng.chance(1, 2)) g.create(t, s, g.rng.below(8), g.secret_kind(), {g.clock_reading()});
        else g.load_seed(t, s, g.fabricate((unsigned)g.rng.below(8) | (g.rng.chance(1, 3) ? 16 : 0)));
        if (!g.live(t, s)) continue;
        g.store(t, s);
        int apps = 1 + (int)g.rng.below(4);
        std::string pw = g.password();
        for (int a = 0; a < apps; ++a) {
            std::string use = pw;
            int r = (int)g.rng.below(6);
            if (r == 0) use = g.password();                                  // a different password
            else if (r == 1) use = model::nfc_raw(pw);                       // canonically equivalent spellings
            else if (r == 2) use = model::nfkd_raw(pw);
            if (use.size() > STRSZ - 1 || model::nfkd_raw(use).size() > STRSZ - 1) use = pw;
            g.crypt(t, s, use);
            g.emit(OP_ISENC, t, s); g.store(t, s);
            // the result must be usable like any seed
            int n2 = g.free_slot(t);
            AbsSeed sd = g.seeds[{t, s}];
            switch (g.rng.below(7)) {
            case 0: if (n2 >= 0) { int li = g.pick_lang(); unsigned coin = g.pick_coin(); g.encode(t, s, li, coin); g.decode(t, n2, g.valid_phrase(sd, li, coin, (int)g.rng.below(256)), coin, g.rng.chance(1, 2) ? -1 : li); if (g.live(t, n2)) { g.store(t, n2); if (g.rng.chance(1, 2)) { g.crypt(t, n2, use); g.store(t, n2); g.keygen(t, n2, g.pick_coin(), 32); } g.free_seed(t, n2); } } break;
            case 1: if (n2 >= 0) { g.load_seed(t, n2, sd); if (g.live(t, n2)) { if (g.rng.chance(1, 2)) { g.crypt(t, n2, use); g.store(t, n2); g.keygen(t, n2, g.pick_coin(), 32); } g.free_seed(t, n2); } } break;
            case 2: g.inject((int)g.rng.below(3), (unsigned)g.rng.below(8)); break;
            case 3: g.emit(OP_GETB, t, s); { Op& o = g.emit(OP_GETF, t, s); o.a = 7; } break;
            case 4: g.enable(t, g.rng.chance(1, 3) ? 7 : ((g.rng.chance(1, 2) ? 7 : g.rng.below(8)) | (g.rng.next() << 3))); break;
            default: g.keygen(t, s, g.pick_coin(), 32); break;
            }
        }
    }
    return g.plan;
}

static Plan churn_plan(G& g, int variant) {
    // churn by several threads at once over an allocator that hands the address released last to the next request
    // (whoever makes it): every thread builds and frees its own seeds in a loop. Each thread's calls to the allocator
    // seam must be what it makes alone, and nothing may stay allocated (a release swallowed or duplicated because of
    // what another thread did in between shows in both).
    g.plan.mode = "preempt";
    g.plan.ntasks = g.ntasks = 2 + (int)g.rng.below(3);
    g.alloc_fail_pct = (variant % 16 == 15) ? 10 : 0;
    prologue(g, 1 + (int)g.rng.below(3), 0, (int)g.rng.below(3), (unsigned)g.rng.below(8) | 6, 7);
    if (g.rng.chance(3, 4)) for (auto& o : g.plan.ops) if (o.kind == OP_CONFIG) o.a |= 1ull << 11;
    int n = 3 + (int)g.rng.below(6);
    for (int i = 0; i < n; ++i) for (int t = 0; t < g.ntasks; ++t) {
        int s = (int)g.rng.below(2);
        if (g.live(t, s)) g.free_seed(t, s);
        switch (g.rng.below(4)) {
        case 0: g.create(t, s, g.rng.below(8), g.secret_kind(), {g.clock_reading()}); break;
        case 1: g.load_seed(t, s, g.fabricate((unsigned)g.rng.below(8))); break;
        case 2: { AbsSeed sd = g.fabricate((unsigned)g.rng.below(8)); int li = g.pick_lang(); unsigned coin = g.pick_coin(); g.decode(t, s, g.valid_phrase(sd, li, coin, 0), coin, g.rng.chance(1, 2) ? -1 : li); break; }
        default: { u8 bad[32]; AbsSeed sd = g.fabricate((unsigned)g.rng.below(32)); model::serialise(sd, bad); if (g.rng.chance(1, 2)) bad[8 + g.rng.below(24)] ^= 1 << g.rng.below(8); g.load_bytes(t, s, bad); break; }
        }
        if (g.live(t, s) && g.rng.chance(1, 2)) g.free_seed(t, s);
        if (g.rng.chance(1, 8)) g.emit(OP_FREENULL, t, 0);
    }
    for (int t = 0; t < g.ntasks; ++t) for (int s = 0; s < 2; ++s) if (g.live(t, s)) g.free_seed(t, s);
    return g.plan;
}

static Plan make_C15(u64 seed, int variant) {
    G g(seed); g.plan.prop = "C15";
    g.allow_chain = false;      // the single-fault enumeration compares operation by operation; inputs must not depend on earlier outputs
    choose_langs(g);
    g.plan.ntasks = g.ntasks = 1 + (int)g.rng.below(3);
    // every history is subjected to the single-fault enumeration; two thirds carry sampled faults of their own as well
    static const int rates[] = {0, 5, 20, 50, 100};
    g.alloc_fail_pct = (variant % 3 == 0) ? 0 : rates[1 + g.rng.below(4)];     // a third of the histories are fault-free before the enumeration adds its single fault
    if (variant % 125 == 124) {
        // many seeds alive at once (several hundred), then all released in random order
        g.plan.ntasks = g.ntasks = 5 + (int)g.rng.below(4);
        g.alloc_fail_pct = 0;
        prologue(g, 1 + (int)g.rng.below(3), 0, (int)g.rng.below(3), (unsigned)g.rng.below(8), 7);
        std::vector<std::pair<int, int>> all;
        for (int t = 0; t < g.ntasks; ++t) {
            int n = 40 + (int)g.rng.below(21);
            for (int i = 0; i < n; ++i) {
                int s = g.free_slot_wide(t); if (s < 0) break;
                int k = (int)g.rng.below(3);
                if (k == 0 || all.empty()) g.create(t, s, g.rng.below(8), g.secret_kind(), {g.clock_reading()});
                else if (k == 1) g.load_seed(t, s, g.fabricate((unsigned)g.rng.below(8)));
                else { AbsSeed sd = g.fabricate((unsigned)g.rng.below(8)); int li = g.pick_lang(); unsigned coin = g.pick_coin(); g.decode(t, s, g.valid_phrase(sd, li, coin, 0), coin, g.rng.chance(1, 2) ? -1 : li); }
                if (g.live(t, s)) all.push_back({t, s});
            }
        }
        for (size_t i = all.size(); i > 1; --i) std::swap(all[i - 1], all[g.rng.below(i)]);
        for (auto& ts : all) { if (g.rng.chance(1, 10)) g.store(ts.first, ts.second); g.free_seed(ts.first, ts.second); }
        return g.plan;
    }
    if (variant % 8 == 7) return churn_plan(g, variant);
    prologue(g, 1 + (int)g.rng.below(3), (int)g.rng.below(2), (int)g.rng.below(3), (unsigned)g.rng.below(8), g.rng.below(8));
    Weights w; w.create = 10; w.load = 8; w.loadbad = 8; w.decode = 10; w.decodebad = 10; w.fabricate = 10; w.free_ = 10; w.freenull = 3; w.keygen = 1; w.get = 1; w.enable = 4;
    walk(g, (variant != 0 && variant % 250 == 249) ? 800 + (int)g.rng.below(800) : 4 + (int)g.rng.below(30), w, true);
    if (variant % 3 != 0 && g.rng.chance(1, 2)) {
        // bursts: fail a later request of the same call too
        for (auto& o : g.plan.ops) if (o.fail && g.rng.chance(1, 2)) o.fail |= g.rng.below(8);
    }
    return g.plan;
}

static Plan make_C16(u64 seed, int variant) {
    G g(seed); g.plan.prop = "C16";
    choose_langs(g);
    if (variant % 3 == 0) { g.langs_enabled = {(int)((seed >> 3) % g.nlangs())}; }
    g.plan.ntasks = g.ntasks = 1 + (int)g.rng.below(2);
    g.alloc_fail_pct = (variant % 2) ? 25 : 0;
    prologue(g, 2, 0, (int)g.rng.below(3), 7, g.rng.below(8));
    bool fulllen = g.rng.chance(1, 3);
    bool badpw = g.rng.chance(1, 4);
    if (badpw) g.zero_on_invalid = true;
    if (fulllen || badpw) g.config(2, 0, fulllen ? 1 : 0);
    Weights w; w.create = 10; w.load = 8; w.loadbad = 6; w.decode = 12; w.decodebad = 12; w.fabricate = 8; w.encode = 10; w.crypt = 8; w.keygen = 4; w.store = 4; w.free_ = 10; w.get = 1; w.enable = 2; w.inject = 0; w.langq = 0;
    walk(g, 4 + (int)g.rng.below(24), w, false);
    if (badpw) {
        // a password in a legacy encoding (Latin-1): an ASCII prefix followed by bytes that are not UTF-8
        int t = 0, ls = g.live_slot(t);
        if (ls < 0) { ls = 0; g.create(t, ls, 0, 0, {g.clock_reading()}); }
        if (g.live(t, ls)) { std::string pw = g.ascii_pw(); pw += "\xE9"; if (g.rng.chance(1, 2)) pw += g.ascii_pw(); Op& o = g.emit(OP_CRYPT, t, ls); o.data.assign(pw.begin(), pw.end()); g.seeds.erase({t, ls}); }
    }
    if (fulllen || g.rng.chance(1, 8)) {
        // over-long inputs: the exits taken when the normalised text does not fit
        int t = 0, fs = g.free_slot(t);
        if (fs >= 0) { AbsSeed sd = g.fabricate(0); unsigned coin = g.pick_coin(); std::string p = g.overlong_phrase(sd, coin); g.decode(t, fs, p, coin, g.rng.chance(1, 2) ? -1 : model::lang_by_name_en("Japanese")); }
    }
    return g.plan;
}

static Plan make_C18(u64 seed, int variant) {
    G g(seed); g.plan.prop = "C18";
    choose_langs(g);
    (void)variant;
    g.plan.ntasks = g.ntasks = 1 + (int)g.rng.below(2);
    g.alloc_fail_pct = g.rng.chance(1, 4) ? 10 : 0;
    reset_state(g);
    g.config((int)g.rng.below(4), (int)g.rng.below(2));
    if (variant % 97 == 96) {
        // injection storm: one task uses the library, another re-injects a wrapping number of times, the first one goes on
        g.plan.ntasks = g.ntasks = 2;
        g.inject((int)g.rng.below(3), 7); g.enable(0, 7);
        g.create(0, 0, g.rng.below(8), g.secret_kind(), {g.clock_reading()});
        if (g.live(0, 0)) g.free_seed(0, 0);
        static const int counts[] = {255, 256, 257, 511, 512, 513};
        int n = counts[g.rng.below(6)], gen0 = (int)g.rng.below(3);
        for (int i = 0; i < n; ++i) { Op& o = g.emit(OP_INJECT, 1, 0); o.a = (u64)((gen0 + i) % 3); o.b = (i == n - 1) ? 7 : g.rng.below(8); }
        // make sure the last injection differs from the one task 0 worked under
        g.create(0, 1, g.rng.below(8), g.secret_kind(), {g.clock_reading()});
        if (g.live(0, 1)) { g.store(0, 1); g.keygen(0, 1, g.pick_coin(), 32); g.free_seed(0, 1); }
        g.create(1, 0, g.rng.below(8), g.secret_kind(), {g.clock_reading()});
        return g.plan;
    }
    int ninj = 2 + (int)g.rng.below(5);
    int lastgen = -1;
    for (int k = 0; k < ninj; ++k) {
        int gen = (int)g.rng.below(3);
        if (gen == lastgen && g.rng.chance(2, 3)) gen = (gen + 1) % 3;
        lastgen = gen;
        g.inject(gen, (unsigned)g.rng.below(8));
        if (k == 0 || g.rng.chance(1, 3)) g.enable(0, g.rng.below(8));
        Weights w; w.create = 16; w.free_ = 10; w.crypt = 4; w.keygen = 3; w.decode = 6; w.encode = 5; w.load = 4; w.inject = 0; w.decodebad = 2; w.loadbad = 1; w.fabricate = 1;
        walk(g, 1 + (int)g.rng.below(8), w, false);
    }
    // single-bit random outputs make every bit position count
    for (auto& o : g.plan.ops) if (o.kind == OP_CREATE && g.rng.chance(1, 3)) o.data = g.secret_bytes(g.rng.chance(1, 2) ? 3 : 4);
    // now and then the environment injects from inside a dependency (lazy bootstrap in the allocator hook)
    for (auto& o : g.plan.ops) if ((o.kind == OP_CREATE || o.kind == OP_LOAD || o.kind == OP_DECODE || o.kind == OP_DECODEX) && g.rng.chance(1, 12)) o.reinj = 1 + g.rng.below(3) * 8 + g.rng.below(8);
    // (the generator's seed tracking for those creates is not needed: later operations carry explicit inputs)
    return g.plan;
}

static Plan make_C20(u64 seed, int variant) {
    G g(seed); g.plan.prop = "C20"; g.plan.mode = "preempt";
    choose_langs(g);
    // one history in ten: build-and-free churn over the recycling allocator (what one thread releases the next request of any
    // thread receives): a release dropped or duplicated because of what another thread did in between breaks serial equivalence
    if (variant % 10 == 9 && variant % 300 != 299) return churn_plan(g, variant);
    g.plan.ntasks = g.ntasks = g.rng.chance(1, 5) ? 5 + (int)g.rng.below(3) : 2 + (int)g.rng.below(3);      // a few runs with more threads than any small fixed pool
    prologue(g, (int)g.rng.below(4), (int)g.rng.below(2), (int)g.rng.below(3), (unsigned)g.rng.below(8), g.rng.below(8));
    if (g.rng.chance(1, 3)) {   // the application (re)configures the library from more than one thread before it starts working
        int k = 1 + (int)g.rng.below(g.ntasks - 1);
        Op& o = g.emit(OP_INJECT, k, 0); o.a = g.rng.below(3); o.b = g.rng.below(8);
        Op& e2 = g.emit(OP_ENABLE, (int)g.rng.below(g.ntasks), 0); e2.a = g.mask;
    }
    // per task scripts: the walk alternates tasks, each touches only its own slots
    Weights w; w.enable = 0; w.inject = 0; w.langq = 1; w.create = 10; w.decode = 14; w.decodebad = 6; w.encode = 10; w.keygen = 8; w.crypt = 6; w.load = 6; w.store = 5; w.free_ = 6; w.fabricate = 4;
    int per = 3 + (int)g.rng.below(6);
    if (variant % 300 == 299) {
        // soak: thousands of decodes in one history, traffic in two languages (counters, adaptive tables, periodic maintenance)
        g.plan.ntasks = g.ntasks = 2 + (int)g.rng.below(3);
        int la = g.pick_lang(), lb = (int)g.rng.below(g.nlangs());
        int rounds = 4300 / g.ntasks + (int)g.rng.below(200);
        std::vector<std::vector<std::string>> ph(g.ntasks);
        std::vector<unsigned> coins(g.ntasks);
        for (int t = 0; t < g.ntasks; ++t) { AbsSeed sd = g.fabricate(0); coins[t] = g.pick_coin(); ph[t] = {g.valid_phrase(sd, la, coins[t], 0), g.valid_phrase(sd, lb, coins[t], 0)}; }
        for (int i = 0; i < rounds; ++i) for (int t = 0; t < g.ntasks; ++t) {
            g.decode(t, 1, ph[t][g.rng.below(2)], coins[t], -1);
            if (g.live(t, 1)) g.free_seed(t, 1);
        }
        return g.plan;
    }
    if (variant % 3 == 1) {
        // concentrate all threads on one or two entry points, so that they meet inside the same code
        bool extreme = g.rng.chance(1, 4);      // all of them at the size limits: the longest phrases there are (Korean or Japanese)
        if (extreme) { int li = model::lang_by_name_en(g.rng.chance(2, 3) ? "Korean" : "Japanese"); if (li >= 0) g.langs_enabled = {li}; }
        for (int t = 0; t < g.ntasks; ++t) {
            if (extreme) { AbsSeed sd; bytes b = g.secret_bytes(6); memcpy(sd.secret, b.data(), 19); sd.secret[18] &= 0x3F; sd.features = 0; sd.birthday = (unsigned)g.rng.below(1024); g.load_seed(t, 0, sd); }
            else if (g.rng.chance(1, 2)) g.create(t, 0, g.rng.below(8), g.secret_kind(), {g.clock_reading()}); else g.load_seed(t, 0, g.fabricate((unsigned)g.rng.below(8)));
        }
        int k1 = (int)g.rng.below(7), k2 = (int)g.rng.below(7);
        for (int i = 0; i < per; ++i) for (int t = 0; t < g.ntasks; ++t) {
            if (!g.live(t, 0)) continue;
            int k = g.rng.chance(1, 2) ? k1 : k2;
            AbsSeed sd = g.seeds[{t, 0}];
            int li = g.pick_lang(); unsigned coin = g.pick_coin();
            switch (k) {
            case 0: g.keygen(t, 0, coin, 32); break;
            case 1: g.encode(t, 0, li, coin); break;
            case 2: if (g.live(t, 1)) g.free_seed(t, 1); g.decode(t, 1, g.valid_phrase(sd, li, coin, (int)g.rng.below(256)), coin, -1); break;
            case 3: if (g.live(t, 1)) g.free_seed(t, 1); g.decode(t, 1, g.valid_phrase(sd, li, coin, (int)g.rng.below(256)), coin, li); break;
            case 4: g.crypt(t, 0, g.password()); break;
            case 5: if (g.live(t, 1)) g.free_seed(t, 1); g.load_seed(t, 1, sd); break;
            default: g.store(t, 0); if (g.live(t, 2)) g.free_seed(t, 2); g.create(t, 2, g.rng.below(8), g.secret_kind(), {g.clock_reading()}); break;
            }
        }
        return g.plan;
    }
    walk(g, per * g.ntasks, w, false);
    return g.plan;
}

Plan make(const std::string& prop, u64 seed, int variant, bool fresh) {
    Plan p;
    g_fresh = fresh;
    if (prop == "C13") p = make_C13(seed, variant);
    else if (prop == "C04") p = make_C04(seed, variant);
    else if (prop == "C10") p = make_C10(seed, variant);
    else if (prop == "C11") p = make_C11(seed, variant);
    else if (prop == "C12") p = make_C12(seed, variant);
    else if (prop == "C15") p = make_C15(seed, variant);
    else if (prop == "C16") p = make_C16(seed, variant);
    else if (prop == "C18") p = make_C18(seed, variant);
    else if (prop == "C20") p = make_C20(seed, variant);
    else { fprintf(stderr, "polysim: no generator for %s\n", prop.c_str()); exit(3); }
    p.origin_seed = seed;
    g_fresh = false;
    return p;
}

}  // namespace gen

// Plan text format: explicit, self-contained, replayable without the generator.
#include "sim.h"
#include <sstream>

const char* OP_NAMES[OP_NKINDS] = {"inject", "enable", "config", "create", "load", "store", "encode", "decode", "decodex",
                                   "crypt", "keygen", "getb", "getf", "isenc", "free", "freenull", "langq"};
const char* EV_NAMES[EV_NKINDS] = {"rand", "kdf", "memzero", "nfc", "nfkd", "time", "alloc", "free", "libc_malloc", "libc_free", "libc_time", "forbidden"};

std::string Op::text() const {
    std::string s = strf("op %s t=%d s=%d", OP_NAMES[kind], task, slot);
    if (a) s += strf(" a=%llu", (unsigned long long)a);
    if (b) s += strf(" b=%llu", (unsigned long long)b);
    if (!data.empty()) s += " data=" + hexs(data);
    if (!clock.empty()) {
        s += " clock=";
        for (size_t i = 0; i < clock.size(); ++i) s += (i ? "," : "") + strf("%llu", (unsigned long long)clock[i]);
    }
    if (fail) s += strf(" fail=%llu", (unsigned long long)fail);
    if (reinj) s += strf(" reinj=%llu", (unsigned long long)reinj);
    if (chain) s += " chain=1";
    return s;
}

bool Op::parse(const std::string& line, Op& o) {
    std::istringstream is(line);
    std::string tok;
    is >> tok;
    if (tok != "op") return false;
    is >> tok;
    o = Op();
    o.kind = -1;
    for (int k = 0; k < OP_NKINDS; ++k) if (tok == OP_NAMES[k]) o.kind = k;
    if (o.kind < 0) return false;
    while (is >> tok) {
        size_t eq = tok.find('=');
        if (eq == std::string::npos) return false;
        std::string k = tok.substr(0, eq), v = tok.substr(eq + 1);
        if (k == "t") o.task = atoi(v.c_str());
        else if (k == "s") o.slot = atoi(v.c_str());
        else if (k == "a") o.a = strtoull(v.c_str(), nullptr, 10);
        else if (k == "b") o.b = strtoull(v.c_str(), nullptr, 10);
        else if (k == "data") o.data = unhex(v);
        else if (k == "fail") o.fail = strtoull(v.c_str(), nullptr, 10);
        else if (k == "reinj") o.reinj = strtoull(v.c_str(), nullptr, 10);
        else if (k == "chain") o.chain = strtoull(v.c_str(), nullptr, 10);
        else if (k == "clock") {
            size_t p = 0;
            while (p <= v.size()) { size_t c = v.find(',', p); if (c == std::string::npos) c = v.size(); o.clock.push_back(strtoull(v.substr(p, c - p).c_str(), nullptr, 10)); p = c + 1; }
        } else return false;
    }
    return true;
}

std::string Plan::text() const {
    std::string s = "polysim-plan v1\n";
    s += "prop=" + prop + "\nmode=" + mode + strf("\nntasks=%d\norigin=%llu\n", ntasks, (unsigned long long)origin_seed);
    for (auto& o : ops) s += o.text() + "\n";
    if (!sched.empty()) {
        s += "sched";
        for (auto& q : sched) s += strf(" %d:%u", q.task, q.edges);
        s += "\n";
    }
    return s;
}

bool Plan::parse(const std::string& s, Plan& p) {
    p = Plan();
    std::istringstream is(s);
    std::string line;
    if (!std::getline(is, line) || line.rfind("polysim-plan", 0) != 0) return false;
    while (std::getline(is, line)) {
        if (line.empty() || line[0] == '#') continue;
        if (line.rfind("op ", 0) == 0) { Op o; if (!Op::parse(line, o)) return false; p.ops.push_back(o); continue; }
        if (line.rfind("sched", 0) == 0) {
            std::istringstream ls(line.substr(5));
            std::string tok;
            while (ls >> tok) { Quantum q; unsigned e; if (sscanf(tok.c_str(), "%d:%u", &q.task, &e) != 2) return false; q.edges = e; p.sched.push_back(q); }
            continue;
        }
        size_t eq = line.find('=');
        if (eq == std::string::npos) return false;
        std::string k = line.substr(0, eq), v = line.substr(eq + 1);
        if (k == "prop") p.prop = v; else if (k == "mode") p.mode = v; else if (k == "ntasks") p.ntasks = atoi(v.c_str());
        else if (k == "origin") p.origin_seed = strtoull(v.c_str(), nullptr, 10);
    }
    return true;
}

std::string PtrInfo::str() const {
    switch (cls) {
    case PC_NULL: return "null";
    case PC_STACK: return "stack";
    case PC_STACK_OTHER: return strf("stack-of-task%d", id);
    case PC_BLOCK: return strf("blk%d.%d+%llu", disp >> 16, disp & 0xFFFF, (unsigned long long)off);
    case PC_BUF: return strf("buf%d+%llu", id, (unsigned long long)off);
    default: return "other";
    }
}

std::string SeamEvent::str() const {
    std::string s = EV_NAMES[kind];
    if (gen >= 0) s += strf("@g%d", gen);
    if (stale) s += "!STALE";
    switch (kind) {
    case EV_RAND: s += strf("(n=%llu->%s)=%s", (unsigned long long)n, p.str().c_str(), hexs(a).c_str()); break;
    case EV_KDF: s += strf("(pw[%llu]=%s,%s salt=%s,it=%llu,key[%llu]->%s)", (unsigned long long)reading, hexs(a).c_str(), name.c_str(), hexs(b).c_str(), (unsigned long long)n, (unsigned long long)keylen, p.str().c_str()); break;
    case EV_MEMZERO: s += strf("(%s,%llu)", p.str().c_str(), (unsigned long long)n); break;
    case EV_NFC: case EV_NFKD: s += strf("(%016llx->%016llx)", (unsigned long long)fnv1a(a.data(), a.size()), (unsigned long long)fnv1a(out.data(), out.size())); break;
    case EV_TIME: case EV_LIBC_TIME: s += strf("=%llu", (unsigned long long)reading); break;
    case EV_ALLOC: case EV_LIBC_MALLOC: s += strf("(%llu)=%s", (unsigned long long)n, failed ? "NULL[fault]" : p.str().c_str()); break;
    case EV_FREE: case EV_LIBC_FREE: s += strf("(%s)%s flags=%llu", p.str().c_str(), bad ? ("!BAD:" + name).c_str() : "", (unsigned long long)n); break;
    case EV_FORBIDDEN: s += "(" + name + ")"; break;
    }
    return s;
}

std::string OpRec::str() const {
    std::string s = strf("#%d %s", idx, op.text().c_str());
    if (skipped) return s + " => skipped";
    s += " =>";
    if (status >= 0) s += strf(" %s", status_name(status));
    s += strf(" ret=%llu", (unsigned long long)ret);
    if (!out.empty()) s += strf(" out[%zu]=%016llx", out.size(), (unsigned long long)fnv1a(out.data(), out.size()));
    if (!out.empty() && getenv("POLYSIM_VERBOSE")) s += " outhex=" + hexs(out);
    if (lang_out != -2) s += strf(" lang=%d", lang_out);
    if (produced) s += " seed";
    if (input_modified) s += " INPUT-MODIFIED";
    if (guard_broken) s += " GUARD-BROKEN";
    if (selftest_norms) s += strf(" selftest-normalisations=%llu", (unsigned long long)selftest_norms);
    if (!ev.empty()) {
        s += " |";
        // the self-test of an assertion-enabled build normalises every word: summarise runs of equal kinds
        size_t i = 0;
        while (i < ev.size()) {
            size_t j = i;
            if (ev.size() > 64 && (ev[i].kind == EV_NFKD || ev[i].kind == EV_NFC)) {
                u64 h = 0;
                while (j < ev.size() && ev[j].kind == ev[i].kind && ev[j].gen == ev[i].gen && ev[j].stale == ev[i].stale) { h = fnv1a(ev[j].str(), h); ++j; }
                s += strf(" %s@g%d x%zu[%016llx]", EV_NAMES[ev[i].kind], ev[i].gen, j - i, (unsigned long long)h);
                i = j;
            } else { s += " " + ev[i].str(); ++i; }
        }
    }
    return s;
}

// Simulated environment: the eight injected dependencies (three generations each), the libc
// fallbacks reached through link-time symbol redirection, the allocator ledger, the task
// threads with their coordinator hand-off, and the instrumentation callbacks (edges, accesses).
#include "sim.h"
#include "env.h"
#include <sys/mman.h>
#include <unistd.h>
#include <errno.h>
#include <signal.h>
#include <time.h>
#include <locale.h>
#include <sched.h>
#include <map>

extern "C" char pseudo_state[8];

namespace env {

EnvState E;
Task tasks[MAXT];
int ntasks = 0;
sem_t coord_sem;
__thread Task* tls_task = nullptr;
static OpRec stray_rec;

const char* EVN[EV_NKINDS] = {"rand", "kdf", "memzero", "nfc", "nfkd", "time", "alloc", "free", "libc_malloc", "libc_free", "libc_time", "forbidden"};

// ------------------------------------------------------------------ tasks
void task_yield(Task* t, int why) {
    t->state = why;
    sem_post(&coord_sem);
    while (sem_wait(&t->go) != 0 && errno == EINTR) {}
    t->state = TS_RUNNING;
}

static void* task_main(void* arg) {
    Task* t = (Task*)arg;
    tls_task = t;
    for (;;) {
        while (sem_wait(&t->go) != 0 && errno == EINTR) {}
        t->state = TS_RUNNING;
        t->job();
        t->state = TS_DONE;
        sem_post(&coord_sem);
    }
    return nullptr;
}

void start_tasks(int n) {
    sem_init(&coord_sem, 0, 0);
    for (int i = 0; i < n; ++i) {
        Task* t = &tasks[i];
        t->id = i;
        t->stack_size = 1 << 20;
        t->stack_lo = (u8*)mmap(nullptr, t->stack_size, PROT_READ | PROT_WRITE, MAP_PRIVATE | MAP_ANONYMOUS, -1, 0);
        if (t->stack_lo == MAP_FAILED) { perror("mmap"); exit(3); }
        memset(t->stack_lo, STACK_PATTERN, t->stack_size);
        t->seam_stack_size = 1 << 19;
        t->seam_stack = (u8*)mmap(nullptr, t->seam_stack_size, PROT_READ | PROT_WRITE, MAP_PRIVATE | MAP_ANONYMOUS, -1, 0);
        if (t->seam_stack == MAP_FAILED) { perror("mmap"); exit(3); }
        sem_init(&t->go, 0, 0);
        t->state = TS_IDLE; t->preemptible = false; t->countdown = 0; t->cur = nullptr; t->entry_sp = nullptr; t->seam_req = nullptr;
        t->edges_call = t->edges_total = 0; t->last_guard = 0; t->locks_held = 0; t->blocked = false; t->ticks_in_quantum = 0; t->watch_p = nullptr; t->watch_n = 0; t->watch_hits = 0; t->watch_armed = false;
        memset(t->slots, 0, sizeof t->slots);
        pthread_attr_t a; pthread_attr_init(&a);
        pthread_attr_setstack(&a, t->stack_lo, t->stack_size);
        if (pthread_create(&t->th, &a, task_main, t)) { perror("pthread_create"); exit(3); }
        pthread_attr_destroy(&a);
    }
    ntasks = n;
}

// Resume task t and wait until it parks again; seam requests are served here, on the coordinator's stack.
extern "C" void* g_seam_sp;
int resume(Task* t) {
    for (;;) {
        g_seam_sp = t->seam_stack + t->seam_stack_size - 64;     // dependency calls of this task run on its side stack
        sem_post(&t->go);
        while (sem_wait(&coord_sem) != 0 && errno == EINTR) {}
        if (t->state == TS_SEAMREQ) { tls_task = t; (*t->seam_req)(); tls_task = nullptr; continue; }   // body runs here, on behalf of t
        return t->state;
    }
}

// ------------------------------------------------------------------ block lookup by address
static std::map<uintptr_t, int> block_index;     // start address -> id of the (non-retired) block living there
static int find_block(const void* p) {
    auto it = block_index.upper_bound((uintptr_t)p);
    if (it == block_index.begin()) return -1;
    --it;
    const Block& b = E.blocks[it->second];
    return ((const u8*)p < b.p + (b.size ? b.size : 1)) ? it->second : -1;
}

// ------------------------------------------------------------------ pointer classification
PtrInfo classify(const void* p, Task* t, OpRec* rec) {
    PtrInfo r;
    if (!p) { r.cls = PC_NULL; return r; }
    const u8* b = (const u8*)p;
    for (int i = 0; i < ntasks; ++i) {
        Task* x = &tasks[i];
        if (b >= x->stack_lo && b < x->stack_lo + x->stack_size) { r.cls = (x == t) ? PC_STACK : PC_STACK_OTHER; r.id = i; return r; }
    }
    { int bi = find_block(b); if (bi >= 0) { const Block& bl = E.blocks[bi]; r.cls = PC_BLOCK; r.id = bl.id; r.disp = bl.disp; r.off = b - bl.p; return r; } }
    if (rec) for (auto& bf : rec->bufs) if (b >= bf.p && b < bf.p + bf.n) { r.cls = PC_BUF; r.id = bf.id; r.off = b - bf.p; return r; }
    return r;
}

static OpRec* cur_rec() {
    Task* t = tls_task;
    if (t && t->cur) return t->cur;
    if (E.coord_rec) return E.coord_rec;
    E.stray_events++;
    stray_rec.ev.clear();
    return &stray_rec;
}

static void edge_tick(Task* t);

// Run a seam body. In trampoline mode (W2) the body executes on the coordinator's stack so that
// nothing but library frames ever holds secrets on a task stack.
static void on_seam(const std::function<void()>& body) {
    Task* t = tls_task;
    if (t && t->preemptible) {
        // seam-chasing: the instant between the library preparing arguments and the environment reading them
        if (E.seam_chase && E.sched_rng.chance(1, 2)) t->countdown = 1;
        edge_tick(t);
    }
    if (t && E.trampoline) {
        std::function<void()> f = body;
        t->seam_req = &f;
        task_yield(t, TS_SEAMREQ);
        t->seam_req = nullptr;
    } else body();
    if (E.errno_noise) { static const int ev[4] = {EINTR, EAGAIN, ENOENT, ENOTTY}; errno = ev[(E.errno_seq++) & 3]; E.stats.add("fault_errno_left_set"); }
    if (t && t->preemptible) edge_tick(t);
}

static bool optional_present(int kind) {
    if (kind == EV_TIME) return E.cur_opt & 1;
    if (kind == EV_ALLOC) return E.cur_opt & 2;
    if (kind == EV_FREE) return E.cur_opt & 4;
    return true;
}
static SeamEvent& new_event(OpRec* rec, int kind, int gen) {
    rec->ev.emplace_back();
    SeamEvent& e = rec->ev.back();
    e.kind = kind; e.gen = gen;
    if (gen >= 0) e.stale = (gen != E.cur_gen) || !optional_present(kind);
    E.seam_count[kind]++;
    return e;
}

// ------------------------------------------------------------------ bodies
static void fill_block(u8* p, size_t n, u64 tag) {
    switch (E.fill) {
    case 0: memset(p, 0, n); break;
    case 1: memset(p, 0xFF, n); break;
    case 3: memset(p, 0xA5, n); break;
    default: { u64 s = mix64(E.fill_seed, tag); for (size_t i = 0; i < n; ++i) p[i] = (u8)splitmix(s); }
    }
}

static void* do_alloc(int gen, size_t n, bool via_libc) {
    void* result = nullptr;
    on_seam([&] {
        Task* t = tls_task; OpRec* rec = cur_rec();
        SeamEvent& e = new_event(rec, via_libc ? EV_LIBC_MALLOC : EV_ALLOC, gen);
        if (via_libc) e.stale = (E.cur_opt & 2) != 0;     // libc malloc although an allocator is injected
        e.n = n;
        int ord = rec->nalloc++;
        if (rec->op.reinj && !rec->reinj_done && t) {
            // lazy bootstrap: the application's allocator hook brings up its real services on first use and injects them
            rec->reinj_done = true;
            E.stats.add("fault_injection_from_inside_a_dependency");
            nested_inject((int)((rec->op.reinj - 1) / 8), (unsigned)((rec->op.reinj - 1) & 7));
        }
        bool fail = ord < 64 && ((rec->op.fail >> ord) & 1);
        if (fail) { e.failed = true; rec->alloc_failed = true; E.stats.add("fault_alloc_fail"); return; }
        u8* base = nullptr; u8* p = nullptr; bool reused = false;
        if (E.lifo_reuse && E.last_freed >= 0 && E.blocks[E.last_freed].size == n && !E.blocks[E.last_freed].recycled) {
            // like a LIFO free list: the next request of that size gets the address released last
            Block& old = E.blocks[E.last_freed];
            old.recycled = true; base = old.base; p = old.p; old.base = nullptr; reused = true;
            unpoison(p, n);
            E.stats.add("fault_address_reused");
        } else {
            base = (u8*)malloc((n ? n : 1) + 16);
            p = base;
            if (E.misalign) { p = base + 8; E.stats.add("fault_block_8_aligned_only"); }      // malloc returns 16-aligned memory
        }
        E.last_freed = -1;
        Block b; b.id = (int)E.blocks.size(); b.p = p; b.base = base; b.recycled = false;
        int tk = t ? t->id : MAXT;
        b.disp = (tk << 16) | (E.task_blk_seq[tk]++ & 0xFFFF); b.size = n; b.task = t ? t->id : -1; b.op = rec->idx; b.live = true;
        b.via_libc = via_libc; b.freed_op = -1; b.zero_at_free = false; b.wiped_by_memzero = false;
        if (!reused) { fill_block(p, n, (u64)b.disp); if (E.fill != 0) E.stats.add("fault_dirty_alloc"); }
        E.blocks.push_back(b);
        block_index[(uintptr_t)p] = b.id;
        e.p.cls = PC_BLOCK; e.p.id = b.id; e.p.disp = b.disp;
        result = p;
    });
    return result;
}

static bool covered(std::vector<std::pair<u64, u64>> r, u64 size) {
    u64 pos = 0;
    std::sort(r.begin(), r.end());
    for (auto& x : r) { if (x.first > pos) return false; if (x.second > pos) pos = x.second; }
    return pos >= size;
}

static void do_free(int gen, void* p, bool via_libc) {
    on_seam([&] {
        Task* t = tls_task; OpRec* rec = cur_rec();
        SeamEvent& e = new_event(rec, via_libc ? EV_LIBC_FREE : EV_FREE, gen);
        if (via_libc) e.stale = (E.cur_opt & 4) != 0;
        e.p = classify(p, t, rec);
        if (!p) { e.bad = true; e.name = "null"; return; }
        if (e.p.cls != PC_BLOCK || e.p.off != 0) { e.bad = true; e.name = "unknown"; return; }
        Block& b = E.blocks[e.p.id];
        if (!b.live) { e.bad = true; e.name = "repeated"; return; }
        b.live = false; b.freed_op = rec->idx;
        bool z = true;
        for (size_t i = 0; i < b.size; ++i) if (b.p[i]) { z = false; break; }
        b.zero_at_free = z;
        b.wiped_by_memzero = covered(b.zeroed, b.size);
        e.n = (z ? 1 : 0) | (b.wiped_by_memzero ? 2 : 0);
        if (!E.lifo_reuse) memset(b.p, 0xDD, b.size);     // (a recycling allocator hands the block out again exactly as it was released)
        poison(b.p, b.size);       // quarantined until the end of the run: use after free stays visible
        E.last_freed = b.id;
    });
}

static void do_memzero(int gen, void* p, size_t n) {
    on_seam([&] {
        Task* t = tls_task; OpRec* rec = cur_rec();
        SeamEvent& e = new_event(rec, EV_MEMZERO, gen);
        e.n = n; e.p = classify(p, t, rec);
        if (!p) { e.bad = n > 0; e.name = "null"; return; }     // a real wipe function would crash here; reported by the ledger oracle
        volatile u8* v = (volatile u8*)p;
        for (size_t i = 0; i < n; ++i) v[i] = 0;
        if (e.p.cls == PC_BLOCK && !e.stale) E.blocks[e.p.id].zeroed.push_back({e.p.off, e.p.off + n});
    });
}

static void do_rand(int gen, void* out, size_t n) {
    on_seam([&] {
        Task* t = tls_task; OpRec* rec = cur_rec();
        SeamEvent& e = new_event(rec, EV_RAND, gen);
        e.n = n; e.p = classify(out, t, rec);
        u64 already = 0;
        for (auto& x : rec->ev) if (&x != &e && x.kind == EV_RAND) already += x.n;
        u8* o = (u8*)out;
        for (size_t i = 0; i < n; ++i) {
            u64 k = already + i;
            u8 v;
            if (k < rec->op.data.size()) v = rec->op.data[k];
            else { u64 s = mix64(0x52414E44, mix64(rec->idx, k)); v = (u8)splitmix(s); }
            o[i] = v; e.a.push_back(v);
        }
    });
}

void kdf_stream(const bytes& pw, const bytes& salt, u64 iter, u8* out, size_t n) {
    u64 h = fnv1a(pw.data(), pw.size());
    h = fnv1a(salt.data(), salt.size(), h ^ 0x1234567);
    u64 s = mix64(h, iter * 0x100000001ull + pw.size() * 131 + salt.size());
    u64 sel = splitmix(s);
    for (size_t i = 0; i < n; ++i) out[i] = (u8)splitmix(s);
    // kdf_mode 0: plain PRF. 1: a deterministic function of the inputs also picks boundary-shaped masks.
    if (E.kdf_mode == 1) {
        switch (sel % 8) {
        case 0: memset(out, 0, n); break;
        case 1: memset(out, 0xFF, n); break;
        case 2: if (n > 18) out[18] |= 0xC0; break;
        case 3: if (n > 18) out[18] &= 0x3F; break;
        case 4: if (n > 18) out[18] = 0x80; break;
        default: break;
        }
    }
}

static void do_kdf(int gen, const u8* pw, size_t pwlen, const u8* salt, size_t saltlen, u64 iter, u8* key, size_t keylen) {
    on_seam([&] {
        Task* t = tls_task; OpRec* rec = cur_rec();
        SeamEvent& e = new_event(rec, EV_KDF, gen);
        e.n = iter; e.keylen = keylen; e.reading = pwlen; e.p = classify(key, t, rec);
        e.name = strf("saltlen=%zu", saltlen);
        size_t pl = pwlen > 2048 ? 2048 : pwlen, sl = saltlen > 256 ? 256 : saltlen;
        if (pw) e.a.assign(pw, pw + pl);
        if (salt) e.b.assign(salt, salt + sl);
        size_t kl = keylen > 8192 ? 8192 : keylen;
        e.out.resize(kl);
        kdf_stream(e.a, e.b, iter, e.out.data(), kl);
        if (key) memcpy(key, e.out.data(), kl);
        if (t) t->watch_armed = true;
    });
}

static size_t do_norm(int gen, bool compose, const char* str, char* norm) {
    size_t ret = 0;
    on_seam([&] {
        OpRec* rec = cur_rec();
        if (E.in_inject && gen == E.cur_gen) {
            // the self-test of an assertion-enabled build normalises every (public) word: count, do not log
            static std::unordered_map<std::string, std::string> cache[2];     // pure function of its input
            auto& ch = cache[compose ? 1 : 0];
            auto it = ch.find(str);
            if (it == ch.end()) { if (ch.size() > 100000) ch.clear(); it = ch.emplace(str, model::bound(compose ? model::nfc_raw(str) : model::nfkd_raw(str))).first; }
            const std::string& out = it->second;
            memcpy(norm, out.c_str(), out.size() + 1);
            ret = out.size();
            rec->selftest_norms++;
            E.seam_count[compose ? EV_NFC : EV_NFKD]++;
            return;
        }
        SeamEvent& e = new_event(rec, compose ? EV_NFC : EV_NFKD, gen);
        if (E.norm_alias_unsafe && !E.in_inject) norm[0] = 0;      // like a wrapper that initialises its result first: input and output must not alias
        std::string in(str);
        if (E.norm_zero_on_invalid && !compose && rec->op.kind == OP_CRYPT) {
            bool valid = true; model::nfkd_raw(in, &valid);
            if (!valid) { e.a.assign(in.begin(), in.end()); E.stats.add("fault_normaliser_rejects_invalid_utf8"); ret = 0; return; }
        }
        std::string out = model::bound(compose ? model::nfc_raw(in) : model::nfkd_raw(in));
        e.a.assign(in.begin(), in.end());
        e.out.assign(out.begin(), out.end());
        memcpy(norm, out.c_str(), out.size() + 1);
        ret = out.size();
        // a normaliser that, like snprintf, reports the untruncated length (only where the library tolerates it:
        // assertions compiled out, decoding entry points)
        if (E.norm_full_len && !compose && rec->op.kind != OP_CRYPT) {
            size_t full = model::nfkd_raw(in).size();
            if (full > ret) { ret = full; E.stats.add("fault_normaliser_reports_untruncated_length"); }
        }
    });
    return ret;
}

static u64 do_time(int gen, bool via_libc) {
    u64 r = 0;
    on_seam([&] {
        OpRec* rec = cur_rec();
        SeamEvent& e = new_event(rec, via_libc ? EV_LIBC_TIME : EV_TIME, gen);
        if (via_libc) e.stale = (E.cur_opt & 1) != 0;
        u64 k = 0;
        for (auto& x : rec->ev) if (&x != &e && (x.kind == EV_TIME || x.kind == EV_LIBC_TIME)) ++k;
        const std::vector<u64>& c = rec->op.clock;
        r = c.empty() ? DEFAULT_CLOCK : c[k < c.size() ? k : c.size() - 1];
        if (e.stale) r = (r ^ 0x2A5A5A5A5Aull) + 977 * 2629746ull;      // a retired or misplaced clock is a different clock: it tells a different time
        e.reading = r;
    });
    return r;
}

static void do_forbidden(const char* name) {
    on_seam([&] {
        OpRec* rec = cur_rec();
        SeamEvent& e = new_event(rec, EV_FORBIDDEN, -1);
        e.name = name;
    });
}

// ------------------------------------------------------------------ generations
template <int G> struct Gen {
    static void randbytes(void* r, size_t n) { do_rand(G, r, n); }
    static void pbkdf2(const u8* pw, size_t pwlen, const u8* salt, size_t saltlen, u64 it, u8* key, size_t keylen) { do_kdf(G, pw, pwlen, salt, saltlen, it, key, keylen); }
    static void memzero(void* const p, const size_t n) { do_memzero(G, p, n); }
    static size_t nfc(const char* s, polyseed_str o) { return do_norm(G, true, s, o); }
    static size_t nfkd(const char* s, polyseed_str o) { return do_norm(G, false, s, o); }
    static u64 time() { return do_time(G, false); }
    static void* alloc(size_t n) { return do_alloc(G, n, false); }
    static void free(void* p) { do_free(G, p, false); }
    static void fillin(polyseed_dependency* d, unsigned opt) {
        d->randbytes = &randbytes; d->pbkdf2_sha256 = &pbkdf2; d->memzero = &memzero; d->u8_nfc = &nfc; d->u8_nfkd = &nfkd;
        d->time = (opt & 1) ? &time : nullptr; d->alloc = (opt & 2) ? &alloc : nullptr; d->free = (opt & 4) ? &free : nullptr;
    }
};

#ifndef POLYSIM_ASAN
// In uninstrumented builds the dependency entry points are assembly stubs that switch to a per-task
// side stack before any simulator code runs: a dependency call then costs the caller's stack exactly
// one return address, like a small real memzero would, so what the library leaves behind on its own
// stack is neither overwritten nor added to by the simulator (needed by the stack-residue oracle).
extern "C" { extern void* g_seam_sp; }
static u64 seam_dispatch(int kind, int gen, u64* a);
extern "C" u64 seam_entry_c(u64 code, u64* a) {
    // a dependency body may call back into the library (polyseed_inject from a bootstrap hook), whose own dependency calls
    // must then start below the frames that are live on this side stack
    void* saved = g_seam_sp;
    g_seam_sp = (void*)(((uintptr_t)__builtin_frame_address(0) - 1024) & ~(uintptr_t)63);
    u64 r = seam_dispatch((int)(code >> 4), (int)(code & 15), a);
    g_seam_sp = saved;
    return r;
}
static u64 seam_dispatch(int kind, int gen, u64* a) {
    switch (kind) {
    case 0: do_rand(gen, (void*)a[0], (size_t)a[1]); return 0;
    case 1: do_kdf(gen, (const u8*)a[0], (size_t)a[1], (const u8*)a[2], (size_t)a[3], a[4], (u8*)a[5], (size_t)a[6]); return 0;
    case 2: do_memzero(gen, (void*)a[0], (size_t)a[1]); return 0;
    case 3: return do_norm(gen, true, (const char*)a[0], (char*)a[1]);
    case 4: return do_norm(gen, false, (const char*)a[0], (char*)a[1]);
    case 5: return do_time(gen, false);
    case 6: return (u64)(uintptr_t)do_alloc(gen, (size_t)a[0], false);
    default: do_free(gen, (void*)a[0], false); return 0;
    }
}
#define STUB(name, code) \
    asm(".text\n.globl " #name "\n.type " #name ",@function\n" #name ":\n" \
        "movq %rsp, %r10\n movq g_seam_sp(%rip), %r11\n movq %r11, %rsp\n pushq %r10\n pushq %r10\n subq $64, %rsp\n" \
        "movq %rdi, 0(%rsp)\n movq %rsi, 8(%rsp)\n movq %rdx, 16(%rsp)\n movq %rcx, 24(%rsp)\n movq %r8, 32(%rsp)\n movq %r9, 40(%rsp)\n" \
        "movq 8(%r10), %rax\n movq %rax, 48(%rsp)\n movq $" #code ", %rdi\n movq %rsp, %rsi\n call seam_entry_c\n" \
        "addq $64, %rsp\n popq %r10\n popq %r10\n movq %r10, %rsp\n ret\n.size " #name ", .-" #name "\n"); \
    extern "C" void name();
#define STUBS(k, kc) STUB(stub_##k##_0, kc##0) STUB(stub_##k##_1, kc##1) STUB(stub_##k##_2, kc##2)
STUBS(rand, 0x0) STUBS(kdf, 0x1) STUBS(memzero, 0x2) STUBS(nfc, 0x3) STUBS(nfkd, 0x4) STUBS(time, 0x5) STUBS(alloc, 0x6) STUBS(free, 0x7)
typedef void (*stubfn)();
static stubfn STUBTAB[8][3] = {{stub_rand_0, stub_rand_1, stub_rand_2}, {stub_kdf_0, stub_kdf_1, stub_kdf_2}, {stub_memzero_0, stub_memzero_1, stub_memzero_2},
    {stub_nfc_0, stub_nfc_1, stub_nfc_2}, {stub_nfkd_0, stub_nfkd_1, stub_nfkd_2}, {stub_time_0, stub_time_1, stub_time_2},
    {stub_alloc_0, stub_alloc_1, stub_alloc_2}, {stub_free_0, stub_free_1, stub_free_2}};
#endif
extern "C" { void* g_seam_sp = nullptr; }

void make_deps(polyseed_dependency* d, int gen, unsigned opt) {
#ifndef POLYSIM_ASAN
    int g = gen % NGEN;
    d->randbytes = (polyseed_randbytes*)STUBTAB[0][g]; d->pbkdf2_sha256 = (polyseed_pbkdf2*)STUBTAB[1][g]; d->memzero = (polyseed_memzero*)STUBTAB[2][g];
    d->u8_nfc = (polyseed_transform*)STUBTAB[3][g]; d->u8_nfkd = (polyseed_transform*)STUBTAB[4][g];
    d->time = (opt & 1) ? (polyseed_time*)STUBTAB[5][g] : nullptr; d->alloc = (opt & 2) ? (polyseed_malloc*)STUBTAB[6][g] : nullptr;
    d->free = (opt & 4) ? (polyseed_mfree*)STUBTAB[7][g] : nullptr;
#else
    switch (gen % NGEN) {
    case 0: Gen<0>::fillin(d, opt); break;
    case 1: Gen<1>::fillin(d, opt); break;
    default: Gen<2>::fillin(d, opt); break;
    }
#endif
}

void reset_run() {
    for (auto& b : E.blocks) if (b.base) { unpoison(b.p, b.size); free(b.base); }
    E.blocks.clear();
    block_index.clear();
    E.last_freed = -1;
    memset(E.task_blk_seq, 0, sizeof E.task_blk_seq);
    E.coord_rec = nullptr;
    E.stray_events = 0;
    E.in_inject = false;
}

// ------------------------------------------------------------------ access monitor / edges
u32 n_guards = 0;
u8 guard_hit[GUARD_MAX];
bool have_edges = false, have_monitor = false;

static void edge_tick(Task* t) {
    t->edges_call++; t->edges_total++; t->ticks_in_quantum++;
    if (t->edges_call > STEP_BUDGET) { task_yield(t, TS_BUDGET); for (;;) pause(); }
    if (--t->countdown <= 0) task_yield(t, TS_PREEMPTED);
}

// the boundary between two operations of a script is a preemption point of its own
void boundary_tick(Task* t) {
    if (E.yield_at_op) t->countdown = 1;
    t->edges_total++; t->ticks_in_quantum++;
    if (--t->countdown <= 0) task_yield(t, TS_PREEMPTED);
}

// Memory that is mapped read-only (constant tables, RELRO) cannot take part in a data race: loads from it are not tracked.
static std::vector<std::pair<uintptr_t, uintptr_t>> ro_ranges;
void clear_block_index() { block_index.clear(); }
void scan_readonly_mappings() {
    ro_ranges.clear();
    FILE* f = fopen("/proc/self/maps", "r");
    if (!f) return;
    char line[512];
    while (fgets(line, sizeof line, f)) {
        unsigned long lo, hi; char perms[8];
        if (sscanf(line, "%lx-%lx %7s", &lo, &hi, perms) == 3 && perms[1] == '-' && strstr(line, "polysim")) ro_ranges.push_back({lo, hi});
    }
    fclose(f);
}

void monitor_access(const void* addr, unsigned size, bool store) {
    Task* t = tls_task;
    if (!t || (!E.monitor && !t->watch_p)) return;
    const u8* b = (const u8*)addr;
    if (t->watch_p && t->watch_armed && b + size > t->watch_p && b < t->watch_p + t->watch_n) t->watch_hits++;   // "afterwards": only once the KDF has written the key
    if (!E.monitor) return;
    if (b >= t->stack_lo && b < t->stack_lo + t->stack_size) return;
    E.mon_accesses++;
    for (int i = 0; i < ntasks; ++i) {
        Task* x = &tasks[i];
        if (x != t && b >= x->stack_lo && b < x->stack_lo + x->stack_size) {
            if (!E.mon_violation.found && E.report_ownership) { E.mon_violation.found = true; E.mon_violation.oracle = "O"; E.mon_violation.cls = "foreign-stack";
                E.mon_violation.msg = strf("task %d %s %u bytes on the stack of task %d", t->id, store ? "stores" : "loads", size, i); }
            return;
        }
    }
    if (!store) for (auto& r : ro_ranges) if ((uintptr_t)addr >= r.first && (uintptr_t)addr < r.second) return;
    if (int bi = find_block(b); bi >= 0) {
        const Block& bl = E.blocks[bi];
        if (bl.task != t->id && bl.task >= 0 && !E.mon_violation.found && E.report_ownership) {
            E.mon_violation.found = true; E.mon_violation.oracle = "O"; E.mon_violation.cls = "foreign-block";
            E.mon_violation.msg = strf("task %d %s %u bytes in block #%d owned by task %d", t->id, store ? "stores" : "loads", size, bl.id, bl.task);
        }
        return;
    }
    for (auto& kv : E.owned_bufs) if (b >= kv.p && b < kv.p + kv.n) {
        if (kv.id != t->id && !E.mon_violation.found && E.report_ownership) {
            E.mon_violation.found = true; E.mon_violation.oracle = "O"; E.mon_violation.cls = "foreign-buffer";
            E.mon_violation.msg = strf("task %d %s %u bytes in a caller buffer of task %d", t->id, store ? "stores" : "loads", size, kv.id);
        }
        return;
    }
    // shared memory: library globals and tables
    if (t->locks_held > 0) { E.under_lock_accesses++; return; }      // synchronised by the lock / once-routine
    uintptr_t a = (uintptr_t)addr;
    for (unsigned k = 0; k < size;) {
        uintptr_t g = (a + k) >> 3; unsigned lo = (a + k) & 7, cnt = std::min(8 - lo, size - k);
        u8 m = (u8)(((1u << cnt) - 1) << lo);
        Gran& G = E.shadow[g];
        for (int u = 0; u < ntasks && u < MAXT; ++u) {
            if (u == t->id) continue;
            u8 conflict = store ? ((G.r[u] | G.w[u]) & m) : (G.w[u] & m);
            if (conflict && !E.mon_violation.found && E.report_races) {
                E.mon_violation.found = true; E.mon_violation.oracle = "R"; E.mon_violation.cls = "data-race";
                const char* where = ((const char*)addr >= pseudo_state && (const char*)addr < pseudo_state + 8) ?
                    "the hidden static state of a non-reentrant C library function (strtok/localtime/strerror/setlocale family)" : "a static object of the library";
                E.mon_violation.msg = strf("unsynchronised %s by task %d and %s by task %d to the same byte(s) of %s, during %s",
                    store ? "store" : "load", t->id, (G.w[u] & m) ? "store" : "load", u, where, t->cur ? OP_NAMES[t->cur->op.kind] : "?");
            }
        }
        // access-chasing: leave a task right after it stored to shared memory, or right after it loaded something that was
        // stored during this phase (the instant at which a check-then-act or a torn multi-word read goes wrong)
        bool written_before = false;
        for (int u = 0; u < ntasks && u < MAXT; ++u) if (G.w[u] & m) written_before = true;
        if (store) { G.w[t->id] |= m; E.shared_stores++; } else G.r[t->id] |= m;
        if (E.write_chase && t->preemptible && (store || written_before) && E.sched_rng.chance(1, 2)) t->countdown = 1;
        k += cnt;
    }
}

void mem_range(const void* p, size_t n, bool store) {
    if (!tls_task || (!E.monitor && !(tls_task->watch_p && tls_task->watch_armed)) || !n) return;
    const u8* b = (const u8*)p;
    while (n) { unsigned c = n > 8 ? 8 : (unsigned)n; unsigned lo = (uintptr_t)b & 7; if (c > 8 - lo) c = 8 - lo; monitor_access(b, c, store); b += c; n -= c; }
}

}  // namespace env

using namespace env;

// ------------------------------------------------------------------ link-time seams (redirected libc symbols)
extern "C" {
void* sim_libc_malloc(size_t n) { return do_alloc(-1, n, true); }
void sim_libc_free(void* p) { do_free(-1, p, true); }
void* sim_libc_calloc(size_t a, size_t b) { void* p = do_alloc(-1, a * b, true); if (p) memset(p, 0, a * b); return p; }
void* sim_libc_realloc(void* p, size_t n) {
    void* q = do_alloc(-1, n, true);
    if (q && p) { PtrInfo pi = classify(p, tls_task, nullptr); size_t old = pi.cls == PC_BLOCK ? E.blocks[pi.id].size : 0; memcpy(q, p, old < n ? old : n); }
    if (q && p) do_free(-1, p, true);
    return q;
}
time_t sim_libc_time(time_t* out) { time_t t = (time_t)do_time(-1, true); if (out) *out = t; return t; }
int sim_fb_rand(void) { do_forbidden("rand"); return 4; }
long sim_fb_random(void) { do_forbidden("random"); return 4; }
void sim_fb_srand(unsigned) { do_forbidden("srand"); }
long sim_fb_getrandom(void* b, size_t n, unsigned) { do_forbidden("getrandom"); memset(b, 4, n); return (long)n; }
int sim_fb_getentropy(void* b, size_t n) { do_forbidden("getentropy"); memset(b, 4, n); return 0; }
u32 sim_fb_arc4random(void) { do_forbidden("arc4random"); return 4; }
void sim_fb_arc4random_buf(void* b, size_t n) { do_forbidden("arc4random_buf"); memset(b, 4, n); }
long sim_fb_clock(void) { do_forbidden("clock"); return 0; }
int sim_fb_clock_gettime(int, struct timespec* ts) { do_forbidden("clock_gettime"); if (ts) { ts->tv_sec = 0; ts->tv_nsec = 0; } return 0; }
int sim_fb_gettimeofday(void* tv, void*) { do_forbidden("gettimeofday"); if (tv) memset(tv, 0, 16); return 0; }
void* sim_fb_fopen(const char* p, const char*) { do_forbidden(p && strstr(p, "random") ? "fopen(/dev/*random)" : "fopen"); return nullptr; }
int sim_fb_open(const char* p, int, ...) { do_forbidden(p && strstr(p, "random") ? "open(/dev/*random)" : "open"); return -1; }
long sim_fb_read(int, void*, size_t) { do_forbidden("read"); return -1; }
size_t sim_fb_fread(void*, size_t, size_t, void*) { do_forbidden("fread"); return 0; }
char* sim_fb_getenv(const char*) { do_forbidden("getenv"); return nullptr; }
int sim_fb_getpid(void) { do_forbidden("getpid"); return 4; }
int sim_sys_mlock(const void*, size_t) { if (E.syscall_faults) { E.stats.add("fault_mlock_fails"); errno = ENOMEM; return -1; } return 0; }
int sim_sys_munlock(const void*, size_t) { return 0; }
int sim_sys_madvise(void*, size_t, int) { if (E.syscall_faults) { errno = EINVAL; return -1; } return 0; }
int sim_fb_timespec_get(struct timespec* ts, int b) { do_forbidden("timespec_get"); if (ts) { ts->tv_sec = 0; ts->tv_nsec = 0; } return b; }

// memory/string functions called by the library: report the touched ranges to the access monitor
void* sim_memcpy(void* d, const void* s, size_t n) { mem_range(s, n, false); mem_range(d, n, true); return memcpy(d, s, n); }
void* sim_memmove(void* d, const void* s, size_t n) { mem_range(s, n, false); mem_range(d, n, true); return memmove(d, s, n); }
void* sim_memset(void* d, int c, size_t n) { mem_range(d, n, true); return memset(d, c, n); }
int sim_memcmp(const void* a, const void* b, size_t n) { mem_range(a, n, false); mem_range(b, n, false); return memcmp(a, b, n); }
int sim_bcmp(const void* a, const void* b, size_t n) { mem_range(a, n, false); mem_range(b, n, false); return memcmp(a, b, n); }
int sim_strcmp(const char* a, const char* b) { mem_range(a, strlen(a) + 1, false); mem_range(b, strlen(b) + 1, false); return strcmp(a, b); }
size_t sim_strlen(const char* a) { size_t n = strlen(a); mem_range(a, n + 1, false); return n; }
char* sim_strcpy(char* d, const char* s) { size_t n = strlen(s) + 1; mem_range(s, n, false); mem_range(d, n, true); return strcpy(d, s); }
char* sim_strncpy(char* d, const char* s, size_t n) { mem_range(s, strnlen(s, n), false); mem_range(d, n, true); return strncpy(d, s, n); }
int sim_strncmp(const char* a, const char* b, size_t n) { mem_range(a, strnlen(a, n), false); mem_range(b, strnlen(b, n), false); return strncmp(a, b, n); }

// ---- synchronisation primitives, should the library ever use them: never block for real (only one task runs at a
// time), and accesses made while holding a lock (or inside a once-routine) are regarded as synchronised.
static void blocked_yield() { Task* t = tls_task; if (t && t->preemptible) { t->blocked = true; task_yield(t, TS_PREEMPTED); } else sched_yield(); }
int sim_mutex_lock(pthread_mutex_t* m) { for (int spins = 0; pthread_mutex_trylock(m) != 0; ++spins) { if (spins > 1000000) return 35 /* EDEADLK */; blocked_yield(); } if (tls_task) tls_task->locks_held++; return 0; }
int sim_mutex_trylock(pthread_mutex_t* m) { int r = pthread_mutex_trylock(m); if (r == 0 && tls_task) tls_task->locks_held++; return r; }
int sim_mutex_unlock(pthread_mutex_t* m) { if (tls_task && tls_task->locks_held > 0) tls_task->locks_held--; return pthread_mutex_unlock(m); }
int sim_rwlock_rdlock(pthread_rwlock_t* m) { for (int spins = 0; pthread_rwlock_tryrdlock(m) != 0; ++spins) { if (spins > 1000000) return 35; blocked_yield(); } if (tls_task) tls_task->locks_held++; return 0; }
int sim_rwlock_wrlock(pthread_rwlock_t* m) { for (int spins = 0; pthread_rwlock_trywrlock(m) != 0; ++spins) { if (spins > 1000000) return 35; blocked_yield(); } if (tls_task) tls_task->locks_held++; return 0; }
int sim_rwlock_unlock(pthread_rwlock_t* m) { if (tls_task && tls_task->locks_held > 0) tls_task->locks_held--; return pthread_rwlock_unlock(m); }
int sim_spin_lock(pthread_spinlock_t* m) { for (int spins = 0; pthread_spin_trylock(m) != 0; ++spins) { if (spins > 1000000) return 35; blocked_yield(); } if (tls_task) tls_task->locks_held++; return 0; }
int sim_spin_unlock(pthread_spinlock_t* m) { if (tls_task && tls_task->locks_held > 0) tls_task->locks_held--; return pthread_spin_unlock(m); }
struct OnceState { int state; int owner; };
static std::map<void*, OnceState>& once_map() { static std::map<void*, OnceState> m; return m; }
static int do_once(void* ctl, void (*fn)(void)) {
    for (;;) {
        OnceState& st = once_map()[ctl];
        if (st.state == 2) return 0;
        if (st.state == 0) { st.state = 1; st.owner = tls_task ? tls_task->id : -1; if (tls_task) tls_task->locks_held++; fn(); if (tls_task) tls_task->locks_held--; once_map()[ctl].state = 2; return 0; }
        blocked_yield();
    }
}
int sim_pthread_once(pthread_once_t* ctl, void (*fn)(void)) { return do_once(ctl, fn); }
void sim_call_once(void* flag, void (*fn)(void)) { do_once(flag, fn); }
int sim_mtx_lock(void* m) { return sim_mutex_lock((pthread_mutex_t*)m) == 0 ? 0 /* thrd_success */ : 2; }
int sim_mtx_unlock(void* m) { return sim_mutex_unlock((pthread_mutex_t*)m) == 0 ? 0 : 2; }

// libc functions with hidden static state: a call is a store to that state as far as the race oracle is concerned
char pseudo_state[8];
static void touches_hidden_state(int which) { if (tls_task && E.monitor) monitor_access(&pseudo_state[which & 7], 1, true); }
char* sim_strtok(char* s, const char* d) { touches_hidden_state(0); return strtok(s, d); }
struct tm* sim_localtime(const time_t* t) { touches_hidden_state(1); return localtime(t); }
struct tm* sim_gmtime(const time_t* t) { touches_hidden_state(1); return gmtime(t); }
char* sim_ctime(const time_t* t) { touches_hidden_state(1); return ctime(t); }
char* sim_asctime(const struct tm* t) { touches_hidden_state(1); return asctime(t); }
char* sim_strerror(int e) { touches_hidden_state(2); return strerror(e); }
char* sim_setlocale(int c, const char* l) { touches_hidden_state(3); return setlocale(c, l); }
void sim_qsort(void* base, size_t n, size_t sz, int (*cmp)(const void*, const void*)) { mem_range(base, n * sz, true); qsort(base, n, sz, cmp); }
void* sim_bsearch(const void* key, const void* base, size_t n, size_t sz, int (*cmp)(const void*, const void*)) { return bsearch(key, base, n, sz, cmp); }   // elements are read by the (instrumented) comparator

#ifdef POLYSIM_ASAN
void* __asan_memcpy(void*, const void*, size_t); void* __asan_memmove(void*, const void*, size_t); void* __asan_memset(void*, int, size_t);
void* sim_asan_memcpy(void* d, const void* s, size_t n) { mem_range(s, n, false); mem_range(d, n, true); return __asan_memcpy(d, s, n); }
void* sim_asan_memmove(void* d, const void* s, size_t n) { mem_range(s, n, false); mem_range(d, n, true); return __asan_memmove(d, s, n); }
void* sim_asan_memset(void* d, int c, size_t n) { mem_range(d, n, true); return __asan_memset(d, c, n); }
#endif

// ---- compiler-inserted callbacks (only library objects are built with these flags)
void __sanitizer_cov_trace_pc_guard_init(u32* start, u32* stop) {
    if (start == stop || *start) return;
    for (u32* x = start; x < stop; ++x) *x = ++n_guards;
    have_edges = true;
}
void __sanitizer_cov_trace_pc_guard(u32* guard) {
    Task* t = tls_task;
    if (!t) return;
    u32 g = *guard;
    if (g < GUARD_MAX) guard_hit[g] = 1;
    t->last_guard = g;
    if (t->preemptible) edge_tick(t);
    else if (t->cur) { t->edges_call++; if (t->edges_call > STEP_BUDGET) { task_yield(t, TS_BUDGET); for (;;) pause(); } }
}
void __sanitizer_cov_trace_pc(void) {
    Task* t = tls_task;
    have_edges = true;
    if (!t) return;
    t->last_guard = (u32)((uintptr_t)__builtin_return_address(0) & 0xFFFFFF);
    if (t->preemptible) edge_tick(t);
    else if (t->cur) { t->edges_call++; if (t->edges_call > STEP_BUDGET) { task_yield(t, TS_BUDGET); for (;;) pause(); } }
}
#define LOADCB(N) void __sanitizer_cov_load##N(void* a) { have_monitor = true; monitor_access(a, N, false); } \
                  void __sanitizer_cov_store##N(void* a) { have_monitor = true; monitor_access(a, N, true); }
LOADCB(1) LOADCB(2) LOADCB(4) LOADCB(8) LOADCB(16)
}

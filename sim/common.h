// polysim — deterministic simulator for tevador/polyseed: shared declarations.
#pragma once
#include <stdint.h>
#include <stddef.h>
#include <string.h>
#include <stdio.h>
#include <stdlib.h>
#include <string>
#include <vector>
#include <map>
#include <set>
#include <unordered_map>
#include <functional>

extern "C" {
#include "polyseed.h"
}

typedef uint64_t u64;
typedef uint32_t u32;
typedef uint8_t u8;
typedef std::vector<u8> bytes;

#define STRSZ POLYSEED_STR_SIZE

// ---------------------------------------------------------------- utilities
static inline u64 splitmix(u64& s) {
    u64 z = (s += 0x9E3779B97F4A7C15ull);
    z = (z ^ (z >> 30)) * 0xBF58476D1CE4E5B9ull;
    z = (z ^ (z >> 27)) * 0x94D049BB133111EBull;
    return z ^ (z >> 31);
}
static inline u64 mix64(u64 a, u64 b) { u64 s = a * 0x9E3779B97F4A7C15ull ^ (b + 0x632BE59BD9B4E019ull); splitmix(s); return splitmix(s); }

struct Rng {
    u64 s;
    explicit Rng(u64 seed = 0) : s(seed) {}
    u64 next() { return splitmix(s); }
    u64 below(u64 n) { return n ? next() % n : 0; }
    bool chance(u64 num, u64 den) { return below(den) < num; }
    template <class T> const T& pick(const std::vector<T>& v) { return v[below(v.size())]; }
    Rng split(u64 tag) { return Rng(mix64(next(), tag)); }
};

static inline u64 fnv1a(const void* p, size_t n, u64 h = 0xcbf29ce484222325ull) {
    const u8* b = (const u8*)p;
    for (size_t i = 0; i < n; ++i) { h ^= b[i]; h *= 0x100000001b3ull; }
    return h;
}
static inline u64 fnv1a(const std::string& s, u64 h = 0xcbf29ce484222325ull) { return fnv1a(s.data(), s.size(), h); }

std::string hexs(const void* p, size_t n);
static inline std::string hexs(const bytes& b) { return hexs(b.data(), b.size()); }
static inline std::string hexs(const std::string& b) { return hexs(b.data(), b.size()); }
bytes unhex(const std::string& s);
std::string strf(const char* fmt, ...) __attribute__((format(printf, 1, 2)));
std::string json_escape(const std::string& s);

// ---------------------------------------------------------------- model
struct Lang {
    std::string name_en, name, sep;
    bool sorted, prefix, accents, compose;
    std::vector<std::string> words;            // NFKD, as published (pinned snapshot)
    std::vector<std::string> stripped;         // non-ASCII bytes removed when accents
    std::unordered_map<std::string, int> exact;    // stripped/full word -> index
    std::unordered_map<std::string, int> pref4;    // first 4 stripped letters -> index
    unsigned maxlen_nfkd;
};

struct AbsSeed {
    u8 secret[19];
    unsigned birthday;   // 0..1023
    unsigned features;   // 0..31
    bool operator==(const AbsSeed& o) const { return !memcmp(secret, o.secret, 19) && birthday == o.birthday && features == o.features; }
    bool operator!=(const AbsSeed& o) const { return !(*this == o); }
};

enum { ST_OK = 0, ST_NUM_WORDS = 1, ST_LANG = 2, ST_CHECKSUM = 3, ST_UNSUPPORTED = 4, ST_FORMAT = 5, ST_MEMORY = 6, ST_MULT_LANG = 7 };
const char* status_name(int s);

namespace model {
extern std::vector<Lang> langs;       // the pinned snapshot, in registry order of the pinned release
void load_wordlists(const std::string& dir);
int lang_by_name_en(const std::string& n);

static const u64 EPOCH = 1635768000ull, STEP = 2629746ull;

unsigned gf_mul2(unsigned x);
unsigned gf_eval(const unsigned c[16]);
void pack(const AbsSeed& s, unsigned coeff[16]);       // coeff[0] = check value, no coin
bool unpack(const unsigned coeff[16], AbsSeed& s);     // does not verify checksum
unsigned check_value(const AbsSeed& s);

// Unicode (real utf8proc), with the bounded-output policy of a defensive dependency
std::string nfkd_raw(const std::string& s, bool* ok = nullptr);
std::string nfc_raw(const std::string& s, bool* ok = nullptr);
std::string bound(const std::string& s);               // cut to STRSZ-1 bytes at a code point boundary
bool is_ascii(const std::string& s);
std::string lib_normalise(const std::string& s);       // what the library's decoder sees: lazy NFKD, bounded

std::string phrase_nfkd(const AbsSeed& s, int lang, unsigned coin, unsigned idx_out[16] = nullptr);
std::string phrase_out(const AbsSeed& s, int lang, unsigned coin);   // as polyseed_encode must write it

int match_token(const Lang& L, const std::string& tok);    // index, -1 none, -2 ambiguous
struct Decoded { int status; int lang; AbsSeed seed; unsigned idx[16]; bool have_idx; std::vector<std::vector<unsigned>> partial; /* leading tokens a language recognised although it does not recognise all */ };
// lang<0: automatic detection. Status is the pre-allocation, pre-feature-gate verdict.
Decoded decode(const std::string& phrase, unsigned coin, int lang);

void serialise(const AbsSeed& s, u8 out[32]);
int parse(const u8 in[32], AbsSeed& s);                 // ST_OK / ST_FORMAT / ST_CHECKSUM (no feature gate)

bool supported(unsigned features, unsigned mask);       // mask = enabled user bits
unsigned birthday_index(u64 t, bool* exact);            // exact=false when t is beyond the 1024-month range
bool birthday_explained(u64 t, unsigned idx);
void keygen_inputs(const AbsSeed& s, unsigned coin, u8 pw[32], u8 salt[32]);
extern const u8 CRYPT_SALT[16];
void apply_mask(AbsSeed& s, const u8 mask[32]);
}

// Reference model: an executable statement of the published polyseed format,
// written from README.md, include/polyseed.h and the property statements.
// It shares no code with /repo/src.
#include "common.h"
#include <stdarg.h>
#include <utf8proc.h>

std::string hexs(const void* p, size_t n) {
    static const char* d = "0123456789abcdef";
    std::string r; r.reserve(n * 2);
    const u8* b = (const u8*)p;
    for (size_t i = 0; i < n; ++i) { r += d[b[i] >> 4]; r += d[b[i] & 15]; }
    return r;
}
bytes unhex(const std::string& s) {
    bytes r; r.reserve(s.size() / 2);
    auto v = [](char c) { return c <= '9' ? c - '0' : (c | 32) - 'a' + 10; };
    for (size_t i = 0; i + 1 < s.size(); i += 2) r.push_back((u8)(v(s[i]) << 4 | v(s[i + 1])));
    return r;
}
std::string strf(const char* fmt, ...) {
    char buf[4096];
    va_list ap; va_start(ap, fmt);
    int n = vsnprintf(buf, sizeof buf, fmt, ap);
    va_end(ap);
    if (n < 0) return "";
    if ((size_t)n < sizeof buf) return std::string(buf, n);
    std::string big(n + 1, 0);
    va_start(ap, fmt); vsnprintf(&big[0], n + 1, fmt, ap); va_end(ap);
    big.resize(n);
    return big;
}
std::string json_escape(const std::string& s) {
    std::string r;
    for (unsigned char c : s) {
        if (c == '"' || c == '\\') { r += '\\'; r += c; }
        else if (c < 0x20 || c >= 0x7f) r += strf("\\u%04x", c);   // bytes, not code points: lossless for our hex-ish logs
        else r += c;
    }
    return r;
}
const char* status_name(int s) {
    static const char* n[] = {"OK", "NUM_WORDS", "LANG", "CHECKSUM", "UNSUPPORTED", "FORMAT", "MEMORY", "MULT_LANG"};
    return (s >= 0 && s < 8) ? n[s] : "?";
}

namespace model {
std::vector<Lang> langs;

static std::string strip_nonascii(const std::string& s) {
    std::string r;
    for (unsigned char c : s) if (c < 0x80) r += c;
    return r;
}

void load_wordlists(const std::string& dir) {
    langs.clear();
    for (int i = 0;; ++i) {
        std::string path = strf("%s/%02d.txt", dir.c_str(), i);
        FILE* f = fopen(path.c_str(), "rb");
        if (!f) break;
        Lang L; L.maxlen_nfkd = 0;
        char line[512];
        int n = 0;
        while (fgets(line, sizeof line, f)) {
            std::string s(line);
            while (!s.empty() && (s.back() == '\n' || s.back() == '\r')) s.pop_back();
            if (n < 7) {
                size_t eq = s.find('=');
                std::string k = s.substr(0, eq), v = s.substr(eq + 1);
                if (k == "name_en") L.name_en = v; else if (k == "name") L.name = v;
                else if (k == "separator_hex") { bytes b = unhex(v); L.sep.assign(b.begin(), b.end()); }
                else if (k == "is_sorted") L.sorted = v == "1"; else if (k == "has_prefix") L.prefix = v == "1";
                else if (k == "has_accents") L.accents = v == "1"; else if (k == "compose") L.compose = v == "1";
            } else L.words.push_back(s);
            ++n;
        }
        fclose(f);
        if (L.words.size() != 2048) { fprintf(stderr, "polysim: bad word list %s (%zu words)\n", path.c_str(), L.words.size()); exit(3); }
        for (int w = 0; w < 2048; ++w) {
            std::string st = L.accents ? strip_nonascii(L.words[w]) : L.words[w];
            L.stripped.push_back(st);
            L.exact.emplace(st, w);
            if (L.prefix && st.size() >= 4) L.pref4.emplace(st.substr(0, 4), w);
            if (L.words[w].size() > L.maxlen_nfkd) L.maxlen_nfkd = L.words[w].size();
        }
        langs.push_back(L);
    }
    if (langs.empty()) { fprintf(stderr, "polysim: no word lists in %s\n", dir.c_str()); exit(3); }
}
int lang_by_name_en(const std::string& n) {
    for (size_t i = 0; i < langs.size(); ++i) if (langs[i].name_en == n) return (int)i;
    return -1;
}

// GF(2^11) modulo x^11 + x^2 + 1, by shift and reduce.
unsigned gf_mul2(unsigned x) { x <<= 1; if (x & 0x800) x ^= 0x805; return x; }
unsigned gf_eval(const unsigned c[16]) {
    // sum c[i] * 2^i
    unsigned acc = 0, p = 1;
    for (int i = 0; i < 16; ++i) {
        // multiply c[i] by p (p = 2^i as field element) by repeated doubling of c[i]
        unsigned t = c[i];
        for (int k = 0; k < i; ++k) t = gf_mul2(t);
        acc ^= t;
    }
    (void)p;
    return acc;
}
static int secret_bit(const AbsSeed& s, int i) {       // i in 0..149, MSB first
    if (i < 144) return (s.secret[i / 8] >> (7 - i % 8)) & 1;
    return (s.secret[18] >> (5 - (i - 144))) & 1;
}
void pack(const AbsSeed& s, unsigned coeff[16]) {
    unsigned extra = (s.features & 31) << 10 | (s.birthday & 1023);
    for (int w = 0; w < 15; ++w) {
        unsigned v = 0;
        for (int b = 0; b < 10; ++b) v = v << 1 | secret_bit(s, w * 10 + b);
        v = v << 1 | ((extra >> (14 - w)) & 1);
        coeff[w + 1] = v;
    }
    coeff[0] = 0;
    coeff[0] = gf_eval(coeff);     // makes the sum zero (characteristic 2)
}
bool unpack(const unsigned coeff[16], AbsSeed& s) {
    memset(&s, 0, sizeof s);
    unsigned extra = 0;
    for (int w = 0; w < 15; ++w) {
        unsigned v = coeff[w + 1];
        extra = extra << 1 | (v & 1);
        for (int b = 0; b < 10; ++b) {
            int bit = (v >> (10 - b)) & 1, i = w * 10 + b;
            if (i < 144) s.secret[i / 8] |= bit << (7 - i % 8);
            else s.secret[18] |= bit << (5 - (i - 144));
        }
    }
    s.birthday = extra & 1023;
    s.features = extra >> 10;
    return true;
}
unsigned check_value(const AbsSeed& s) { unsigned c[16]; pack(s, c); return c[0]; }

// ---- Unicode
static std::string map_utf8(const std::string& s, int opts, bool* ok) {
    utf8proc_uint8_t* out = nullptr;
    utf8proc_ssize_t n = utf8proc_map((const utf8proc_uint8_t*)s.data(), (utf8proc_ssize_t)s.size(), &out, (utf8proc_option_t)opts);
    if (n < 0) { if (ok) *ok = false; return s; }   // invalid UTF-8: a defensive dependency passes the bytes through
    std::string r((const char*)out, (size_t)n);
    free(out);
    if (ok) *ok = true;
    return r;
}
std::string nfkd_raw(const std::string& s, bool* ok) { return map_utf8(s, UTF8PROC_STABLE | UTF8PROC_DECOMPOSE | UTF8PROC_COMPAT, ok); }
std::string nfc_raw(const std::string& s, bool* ok) { return map_utf8(s, UTF8PROC_STABLE | UTF8PROC_COMPOSE, ok); }
std::string bound(const std::string& s) {
    if (s.size() <= STRSZ - 1) return s;
    size_t n = STRSZ - 1;
    while (n > 0 && ((u8)s[n] & 0xC0) == 0x80) --n;     // do not cut inside a code point
    return s.substr(0, n);
}
bool is_ascii(const std::string& s) { for (unsigned char c : s) if (c >= 0x80) return false; return true; }
std::string lib_normalise(const std::string& s) {
    // "only normalize strings that contain non-ASCII characters"; the result always fits the phrase buffer
    std::string head = s.substr(0, std::min<size_t>(s.size(), STRSZ - 1));
    if (is_ascii(head)) return head;
    return bound(nfkd_raw(s));
}

std::string phrase_nfkd(const AbsSeed& s, int lang, unsigned coin, unsigned idx_out[16]) {
    unsigned c[16]; pack(s, c);
    c[1] ^= coin;
    const Lang& L = langs[lang];
    std::string r;
    for (int i = 0; i < 16; ++i) { if (i) r += L.sep; r += L.words[c[i]]; if (idx_out) idx_out[i] = c[i]; }
    return r;
}
std::string phrase_out(const AbsSeed& s, int lang, unsigned coin) {
    std::string p = phrase_nfkd(s, lang, coin);
    return langs[lang].compose ? bound(nfc_raw(p)) : p;
}

int match_token(const Lang& L, const std::string& tok) {
    std::string t = L.accents ? strip_nonascii(tok) : tok;
    if (t.empty()) {
        // a token made only of marks (or empty) names no word
        return -1;
    }
    auto e = L.exact.find(t);
    if (e != L.exact.end()) return e->second;
    if (L.prefix && t.size() >= 4) {
        auto p = L.pref4.find(t.substr(0, 4));
        if (p != L.pref4.end()) {
            const std::string& w = L.stripped[p->second];
            if (w.size() >= t.size() && !w.compare(0, t.size(), t)) return p->second;
        }
    }
    return -1;
}

Decoded decode(const std::string& phrase, unsigned coin, int lang) {
    Decoded d; memset(&d.seed, 0, sizeof d.seed); d.lang = -1; d.have_idx = false; d.status = ST_OK;
    std::string norm = lib_normalise(phrase);
    std::vector<std::string> tok;
    size_t a = 0;
    for (;;) {
        size_t b = norm.find(' ', a);
        if (b == std::string::npos) { tok.push_back(norm.substr(a)); break; }
        tok.push_back(norm.substr(a, b - a));
        a = b + 1;
    }
    if (!tok.empty() && tok.back().empty()) tok.pop_back();   // a single trailing space (or the empty string)
    if (tok.size() != 16) { d.status = ST_NUM_WORDS; return d; }
    unsigned idx[16];
    int found = -1, nfound = 0;
    for (int li = 0; li < (int)langs.size(); ++li) {
        if (lang >= 0 && li != lang) continue;
        unsigned tmp[16]; bool all = true;
        int w = 0;
        for (; w < 16; ++w) {
            int m = match_token(langs[li], tok[w]);
            if (m < 0) { all = false; break; }
            tmp[w] = m;
        }
        if (!all) { if (w >= 3) d.partial.push_back(std::vector<unsigned>(tmp, tmp + w)); continue; }
        if (++nfound == 1) { found = li; memcpy(idx, tmp, sizeof idx); }
    }
    if (nfound == 0) { d.status = ST_LANG; return d; }
    if (nfound > 1) { d.status = ST_MULT_LANG; return d; }
    d.lang = found; d.have_idx = true; memcpy(d.idx, idx, sizeof idx);
    idx[1] ^= coin;
    if (gf_eval(idx) != 0) { d.status = ST_CHECKSUM; return d; }
    unpack(idx, d.seed);
    return d;
}

void serialise(const AbsSeed& s, u8 out[32]) {
    memcpy(out, "POLYSEED", 8);
    unsigned v = (s.features & 31) << 10 | (s.birthday & 1023);
    out[8] = v & 255; out[9] = v >> 8;
    memcpy(out + 10, s.secret, 19);
    out[29] = 0xFF;
    unsigned c = 0x7000 | check_value(s);
    out[30] = c & 255; out[31] = c >> 8;
}
int parse(const u8 in[32], AbsSeed& s) {
    memset(&s, 0, sizeof s);
    if (memcmp(in, "POLYSEED", 8)) return ST_FORMAT;
    unsigned v = in[8] | in[9] << 8;
    if (v & 0x8000) return ST_FORMAT;
    s.birthday = v & 1023; s.features = v >> 10;
    memcpy(s.secret, in + 10, 19);
    if (in[28] & 0xC0) return ST_FORMAT;
    if (in[29] != 0xFF) return ST_FORMAT;
    unsigned c = in[30] | in[31] << 8;
    if ((c & ~0x7FFu) != 0x7000) return ST_FORMAT;
    if ((c & 0x7FF) != check_value(s)) return ST_CHECKSUM;
    return ST_OK;
}

bool supported(unsigned features, unsigned mask) { return (features & 31 & ~((mask & 7) | 16)) == 0; }

unsigned birthday_index(u64 t, bool* exact) {
    if (exact) *exact = true;
    if (t == ~0ull || t < EPOCH) return 0;
    u64 k = (t - EPOCH) / STEP;
    if (k > 1023) { if (exact) *exact = false; return (unsigned)(k & 1023); }
    return (unsigned)k;
}
bool birthday_explained(u64 t, unsigned idx) {
    if (idx > 1023) return false;
    if (t == ~0ull || t < EPOCH) return idx == 0;
    u64 k = (t - EPOCH) / STEP;
    if (k <= 1023) return idx == k;
    return true;    // beyond the range the statement only demands B <= t, which every index satisfies
}
void keygen_inputs(const AbsSeed& s, unsigned coin, u8 pw[32], u8 salt[32]) {
    memset(pw, 0, 32); memcpy(pw, s.secret, 19);
    memset(salt, 0, 32);
    memcpy(salt, "POLYSEED key", 12);
    salt[13] = salt[14] = salt[15] = 0xFF;
    auto le32 = [&](int o, u32 v) { for (int i = 0; i < 4; ++i) salt[o + i] = (u8)(v >> (8 * i)); };
    le32(16, coin); le32(20, s.birthday); le32(24, s.features);
}
const u8 CRYPT_SALT[16] = {'P', 'O', 'L', 'Y', 'S', 'E', 'E', 'D', ' ', 'm', 'a', 's', 'k', 0, 0xFF, 0xFF};
void apply_mask(AbsSeed& s, const u8 mask[32]) {
    for (int i = 0; i < 19; ++i) s.secret[i] ^= mask[i];
    s.secret[18] &= 0x3F;
    s.features ^= 16;
}
}  // namespace model

#!/usr/bin/env python3
"""matrix.py [--update-meta] [--write-design]: prints the table of DESIGN.md section 10 from seeded/*/meta.json and seeded/RESULTS.json
(which check caught which seeded change). With --update-meta, copies the results of the latest tools/mutants.py run into
each meta.json (detected_by, checks_run) first."""
import json, os, sys, glob
VERIF = os.path.dirname(os.path.dirname(os.path.abspath(__file__)))
res = json.load(open(os.path.join(VERIF, "seeded", "RESULTS.json")))
upd = "--update-meta" in sys.argv
rows = []; kept = caught_own = benign = benign_quiet = rejected = 0
for d in sorted(glob.glob(os.path.join(VERIF, "seeded", "*"))):
    mp = os.path.join(d, "meta.json")
    if not os.path.exists(mp): continue
    m = json.load(open(mp)); name = os.path.basename(d); r = res.get(name, {})
    if upd and r:
        m["checks_run"] = {p: ({"exit": v["exit"], "first_violation": v["first_violation"]} if v.get("first_violation") else {"exit": v["exit"]}) for p, v in sorted(r.items())}
        m["detected_by"] = sorted(p for p, v in r.items() if v["exit"] == 1)
        json.dump(m, open(mp, "w"), indent=1, ensure_ascii=False)
    if m.get("benign"):
        benign += 1; benign_quiet += all(v["exit"] == 0 for v in r.values()) and len(r) == 9; continue
    if name.startswith("rejected-"): rejected += 1; continue
    kept += 1; own = m["breaks_property"]; det = m.get("detected_by", [])
    caught_own += own in det
    rows.append("| %s | %s | %s | %s |" % (name, own, ", ".join(det) or "**none**", m.get("needs_to_manifest", "").replace("|", "/").replace("\n", " ")))
table = "| change | breaks | caught by (exit 1) | what it needs to manifest |\n|--------|--------|--------------------|---------------------------|\n" + "\n".join(rows) + "\n"
if "--write-design" in sys.argv:      # replace the table of DESIGN.md section 10 in place
    dp = os.path.join(VERIF, "DESIGN.md"); lines = open(dp).read().split("\n")
    a = next(i for i, l in enumerate(lines) if l.startswith("| change | breaks |")); b = a
    while b < len(lines) and lines[b].startswith("|"): b += 1
    open(dp, "w").write("\n".join(lines[:a] + table.rstrip("\n").split("\n") + lines[b:]))
else: print(table, end="")
print("\nkept %d, caught by the check of their own property %d; benign %d, all nine checks quiet on %d; rejected %d" % (kept, caught_own, benign, benign_quiet, rejected), file=sys.stderr)

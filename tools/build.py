#!/usr/bin/env python3
"""Builds polysim for one build configuration from /repo's *current working tree*.

Library objects are compiled with the configuration's flags, their libc references that matter
(allocation, time, randomness; in the instrumented configuration also mem*/str*) are redirected to the
simulator with objcopy --redefine-syms, and everything is linked into one static binary.
Build directories are keyed by a hash over sources and flags; concurrent checks share them under a lock.
"""
import fcntl, hashlib, json, os, re, shutil, subprocess, sys, glob
from concurrent.futures import ThreadPoolExecutor

VERIF = os.path.dirname(os.path.dirname(os.path.abspath(__file__)))
REPO = os.environ.get("POLYSIM_REPO", "/repo")
BUILD_ROOT = os.environ.get("POLYSIM_BUILD_ROOT", os.path.join(VERIF, ".build"))

COV = "-fsanitize-coverage=trace-pc-guard,trace-loads,trace-stores"
CONFIGS = {
    # name: (cc, cxx, library flags, harness flags)
    "san":   ("clang", "clang++", ["-O1", "-g", "-fno-omit-frame-pointer", "-fsanitize=address,undefined", "-fno-sanitize-recover=undefined", COV],
              ["-O1", "-g", "-fno-omit-frame-pointer", "-fsanitize=address,undefined", "-fno-sanitize-recover=undefined"]),
    "rel":   ("gcc", "g++", ["-O2", "-g", "-DNDEBUG"], ["-O2", "-g"]),
    "relpc": ("gcc", "g++", ["-O2", "-g", "-DNDEBUG", "-fsanitize-coverage=trace-pc"], ["-O2", "-g"]),
    "o0":    ("gcc", "g++", ["-O0", "-g", "-DNDEBUG"], ["-O2", "-g"]),
    "o3":    ("gcc", "g++", ["-O3", "-g", "-DNDEBUG"], ["-O2", "-g"]),
    "c0":    ("clang", "g++", ["-O0", "-g", "-DNDEBUG"], ["-O2", "-g"]),
    "c2":    ("clang", "g++", ["-O2", "-g", "-DNDEBUG"], ["-O2", "-g"]),
    "c3":    ("clang", "g++", ["-O3", "-g", "-DNDEBUG"], ["-O2", "-g"]),
    "dbg":   ("gcc", "g++", ["-O2", "-g"], ["-O2", "-g"]),          # assertions on, gcc code generation
}

REDIRECT = {
    "malloc": "sim_libc_malloc", "free": "sim_libc_free", "calloc": "sim_libc_calloc", "realloc": "sim_libc_realloc",
    "time": "sim_libc_time",
    "rand": "sim_fb_rand", "random": "sim_fb_random", "srand": "sim_fb_srand", "getrandom": "sim_fb_getrandom",
    "getentropy": "sim_fb_getentropy", "arc4random": "sim_fb_arc4random", "arc4random_buf": "sim_fb_arc4random_buf",
    "clock": "sim_fb_clock", "clock_gettime": "sim_fb_clock_gettime", "gettimeofday": "sim_fb_gettimeofday",
    "timespec_get": "sim_fb_timespec_get",
    "fopen": "sim_fb_fopen", "open": "sim_fb_open", "read": "sim_fb_read", "fread": "sim_fb_fread",
    "getenv": "sim_fb_getenv", "getpid": "sim_fb_getpid",
    "mlock": "sim_sys_mlock", "munlock": "sim_sys_munlock", "madvise": "sim_sys_madvise",
    # synchronisation, should the library ever use it: wrappers that yield to the scheduler instead of blocking
    "pthread_mutex_lock": "sim_mutex_lock", "pthread_mutex_trylock": "sim_mutex_trylock", "pthread_mutex_unlock": "sim_mutex_unlock",
    "pthread_rwlock_rdlock": "sim_rwlock_rdlock", "pthread_rwlock_wrlock": "sim_rwlock_wrlock", "pthread_rwlock_unlock": "sim_rwlock_unlock",
    "pthread_spin_lock": "sim_spin_lock", "pthread_spin_unlock": "sim_spin_unlock",
    "pthread_once": "sim_pthread_once", "call_once": "sim_call_once", "mtx_lock": "sim_mtx_lock", "mtx_unlock": "sim_mtx_unlock",
}
REDIRECT_MEM = {
    "memcpy": "sim_memcpy", "memmove": "sim_memmove", "memset": "sim_memset", "memcmp": "sim_memcmp", "bcmp": "sim_bcmp",
    "strcmp": "sim_strcmp", "strlen": "sim_strlen", "strcpy": "sim_strcpy", "strncpy": "sim_strncpy", "strncmp": "sim_strncmp",
    "strtok": "sim_strtok", "localtime": "sim_localtime", "gmtime": "sim_gmtime", "ctime": "sim_ctime", "asctime": "sim_asctime",
    "strerror": "sim_strerror", "setlocale": "sim_setlocale", "qsort": "sim_qsort", "bsearch": "sim_bsearch",
    "__asan_memcpy": "sim_asan_memcpy", "__asan_memmove": "sim_asan_memmove", "__asan_memset": "sim_asan_memset",
}
KNOWN_UNDEFINED = set(REDIRECT.values()) | set(REDIRECT_MEM.values()) | {
    "memcpy", "memmove", "memset", "memcmp", "bcmp", "strcmp", "strlen", "strncmp", "strcpy", "strncpy", "bsearch",
    "__assert_fail", "__stack_chk_fail", "_GLOBAL_OFFSET_TABLE_"}


def library_sources():
    cm = open(os.path.join(REPO, "CMakeLists.txt")).read()
    m = re.search(r"set\(polyseed_sources(.*?)\)", cm, re.S)
    srcs = [s for s in (m.group(1).split() if m else []) if s.endswith(".c")]
    srcs = [os.path.join(REPO, s) for s in srcs if os.path.exists(os.path.join(REPO, s))]
    if not srcs:
        srcs = sorted(glob.glob(os.path.join(REPO, "src", "*.c")))
    return srcs


def tree_hash(cfg):
    h = hashlib.sha256()
    files = sorted(glob.glob(os.path.join(REPO, "src", "*")) + glob.glob(os.path.join(REPO, "include", "*")) +
                   [os.path.join(REPO, "CMakeLists.txt")] + glob.glob(os.path.join(VERIF, "sim", "*.cpp")) +
                   glob.glob(os.path.join(VERIF, "sim", "*.h")) + [os.path.abspath(__file__)])
    for f in files:
        if os.path.isfile(f):
            h.update(f.encode()); h.update(open(f, "rb").read())
    h.update(json.dumps(CONFIGS[cfg]).encode())
    return h.hexdigest()[:20]


def run(cmd, **kw):
    r = subprocess.run(cmd, stdout=subprocess.PIPE, stderr=subprocess.STDOUT, text=True, **kw)
    if r.returncode != 0:
        sys.stderr.write("BUILD FAILED: %s\n%s\n" % (" ".join(cmd), r.stdout))
        raise SystemExit(3)
    return r.stdout


def build(cfg):
    cc, cxx, libflags, hflags = CONFIGS[cfg]
    os.makedirs(BUILD_ROOT, exist_ok=True)
    d = os.path.join(BUILD_ROOT, "%s-%s" % (cfg, tree_hash(cfg)))
    exe = os.path.join(d, "polysim")
    lock = open(os.path.join(BUILD_ROOT, ".lock-" + cfg), "w")
    fcntl.flock(lock, fcntl.LOCK_EX)
    try:
        if os.path.exists(exe) and os.path.exists(os.path.join(d, "build.json")):
            return exe
        # prune older builds of this configuration
        for old in glob.glob(os.path.join(BUILD_ROOT, cfg + "-*")):
            if old != d:
                shutil.rmtree(old, ignore_errors=True)
        shutil.rmtree(d, ignore_errors=True)
        os.makedirs(d)
        srcs = library_sources()
        redirect = dict(REDIRECT)
        if cfg == "san":
            redirect.update(REDIRECT_MEM)
        symfile = os.path.join(d, "redefine.txt")
        with open(symfile, "w") as f:
            for k, v in redirect.items():
                f.write("%s %s\n" % (k, v))
        objs = []

        def compile_lib(src):
            o = os.path.join(d, "lib_" + os.path.basename(src)[:-2] + ".o")
            run([cc, "-std=c11", "-c", "-DPOLYSEED_STATIC", "-I" + os.path.join(REPO, "include"), "-fPIC"] + libflags + [src, "-o", o])
            extra = []
            if "-fsanitize=address" not in " ".join(libflags):
                # give the library's writable static data section names the linker provides bounds for (static-residue scan)
                extra = ["--rename-section", ".data=polydata", "--rename-section", ".bss=polybss"]
            run(["objcopy", "--redefine-syms=" + symfile] + extra + [o])
            return o

        def compile_h(src):
            o = os.path.join(d, "sim_" + os.path.basename(src)[:-4] + ".o")
            run([cxx, "-std=c++17", "-c", "-Wall", "-Wno-unused-function", "-I" + os.path.join(REPO, "include"), "-I" + os.path.join(VERIF, "sim"),
                 '-DPOLYSIM_CFG="%s"' % cfg] + ([] if "-DNDEBUG" in libflags else ["-DPOLYSIM_LIB_ASSERTS=1"]) + hflags + [src, "-o", o])
            return o

        with ThreadPoolExecutor(16) as ex:
            lib_objs = list(ex.map(compile_lib, srcs))
            sim_objs = list(ex.map(compile_h, sorted(glob.glob(os.path.join(VERIF, "sim", "*.cpp")))))
        # what the library still references outside itself
        und = set()
        defd = set()
        for o in lib_objs:
            for line in run(["nm", o]).splitlines():
                parts = line.split()
                if len(parts) == 2 and parts[0] == "U":
                    und.add(parts[1])
                elif len(parts) == 3:
                    defd.add(parts[2])
        und -= defd
        unknown = sorted(s for s in und if s not in KNOWN_UNDEFINED and not s.startswith("__asan") and not s.startswith("__ubsan")
                         and not s.startswith("__sanitizer") and not s.startswith("__sancov"))
        suspicious = []
        for s in glob.glob(os.path.join(REPO, "src", "*.[ch]")):
            txt = open(s, errors="replace").read()
            for name, rx in (("inline assembly", r"\b(__asm__?|asm)\s*(volatile\s*)?\("), ("raw syscall", r"\bsyscall\s*\("), ("cpu entropy", r"rdrand|rdseed"),
                             ("thread-local", r"\b(_Thread_local|__thread|thread_local)\b"), ("pthread", r"\bpthread_[a-z_]+"), ("c11 threads", r"\b(mtx|cnd|thrd|tss)_[a-z_]+\s*\("),
                             ("atomics", r"\b_Atomic\b|\batomic_[a-z_]+|stdatomic\.h|__atomic_[a-z_]+|__sync_[a-z_]+"), ("calendar time", r"\b(mktime|localtime|gmtime|timegm)\s*\(")):
                if re.search(rx, txt):
                    suspicious.append("%s: %s" % (os.path.basename(s), name))
        link = [cxx] + [f for f in hflags if f.startswith("-fsanitize") or f in ("-g",)] + sim_objs + lib_objs + \
               ["-o", exe, "-lutf8proc", "-lpthread", "-Wl,-z,now"]
        run(link)
        json.dump({"cfg": cfg, "cc": cc, "lib_flags": libflags, "sources": [os.path.relpath(s, REPO) for s in srcs],
                   "undefined_not_behind_a_seam": unknown, "source_patterns_noted": suspicious}, open(os.path.join(d, "build.json"), "w"))
        return exe
    finally:
        fcntl.flock(lock, fcntl.LOCK_UN)


if __name__ == "__main__":
    for c in sys.argv[1:] or ["san", "rel"]:
        print(build(c))

#!/usr/bin/env python3
"""Driver of the polyseed simulation checks.

  check.py <property> [--tier quick|thorough]     run the check (exit 0 clean, 1 violation, 2 harness fault)
  check.py --replay <replay.json>                 re-execute a recorded, minimised plan (exit 1 if it still violates)

Environment: VERIF_SEED (int, default 1), VERIF_TIER, POLYSIM_BUDGET (seconds of simulation per check),
POLYSIM_WORKERS (default 16).
"""
import glob, hashlib, json, os, shutil, subprocess, sys, tempfile, time
from concurrent.futures import ThreadPoolExecutor

HERE = os.path.dirname(os.path.abspath(__file__))
VERIF = os.path.dirname(HERE)
sys.path.insert(0, HERE)
import build as B  # noqa: E402

DATA = os.path.join(VERIF, "sim", "wordlists")
REPLAYS = os.path.join(VERIF, "replays")
EVIDENCE = os.path.join(VERIF, "evidence")
KNOWN = os.path.join(VERIF, "known_findings.json")

# property -> (level, quick: [(config, number of runs)], thorough: [(config, share of the time budget)])
# The quick tier executes a fixed number of runs per configuration, so that what it covers does not depend on the
# speed of the machine; the thorough tier is time-boxed.
PROPS = {
    "C04": ("exploration", [("rel", 80000), ("san", 5000)], [("rel", 0.3), ("san", 0.3), ("o0", 0.1), ("o3", 0.1), ("c2", 0.1), ("dbg", 0.1)]),
    "C10": ("exploration", [("rel", 60000), ("san", 3000)], [("rel", 0.4), ("san", 0.3), ("c2", 0.15), ("dbg", 0.15)]),
    "C11": ("exploration", [("rel", 40000), ("san", 3000)], [("rel", 0.4), ("san", 0.3), ("c2", 0.15), ("o0", 0.15)]),
    "C12": ("exploration", [("rel", 60000), ("san", 4000)], [("rel", 0.3), ("san", 0.3), ("o3", 0.1), ("c2", 0.1), ("o0", 0.1), ("dbg", 0.1)]),
    "C13": ("exploration", [("rel", 60000), ("san", 2500)], [("rel", 0.3), ("san", 0.3), ("o0", 0.08), ("o3", 0.08), ("c2", 0.08), ("c3", 0.08), ("dbg", 0.08)]),
    "C15": ("fault_enumeration", [("rel", 15000), ("san", 1200)], [("rel", 0.4), ("san", 0.4), ("c2", 0.1), ("dbg", 0.1)]),
    "C16": ("exploration", [("rel", 8000), ("o0", 6000), ("san", 1500)], [("rel", 0.2), ("o0", 0.15), ("o3", 0.15), ("c0", 0.1), ("c2", 0.15), ("c3", 0.1), ("san", 0.15)]),
    "C18": ("exploration", [("rel", 60000), ("san", 3000)], [("rel", 0.3), ("san", 0.3), ("dbg", 0.2), ("c2", 0.2)]),
    "C20": ("exploration", [("san", 2400), ("relpc", 12000)], [("san", 0.7), ("relpc", 0.3)]),
}
RULE_EXTRA = {
    "C10": " Run indices 0-63 of every configuration enumerate all 8 enabled-feature masks x 32 feature values x 4 entry points. One run in eight is a concurrent plan (2-3 tasks on their own seeds under the seeded scheduler; feature verdicts and queries must equal what each task observes alone).",
    "C11": " Run indices 0-127 of every configuration sweep all 1025 month boundaries of the birthday range on both sides. One later run in eight is a concurrent plan (birthdays reported to each task must equal what it observes alone).",
    "C12": " One run in eight is a concurrent plan (results of the password operation must equal what each task observes alone); one run in four injects allocation failures into every kind of operation.",
    "C13": " Run indices 0-583 of every configuration enumerate every sequence of length 1-3 over an alphabet of eight macro-operations (create, encode+decode, store+load, password operation, key derivation, free, enabling call, re-injection).",
    "C04": " One run in six is a concurrent plan (2-3 tasks deriving keys at once under the seeded scheduler).",
}
REAL_VS_STUB = {
    "real_code": ["every function of /repo/src compiled from the current working tree (polyseed.c, lang.c, gf.c, storage.c, features.c, dependency.c, word lists)"],
    "simulated": ["randbytes", "pbkdf2_sha256 (keyed PRF stream, not PBKDF2)", "memzero (really zeroes, logged)", "u8_nfc / u8_nfkd (real utf8proc, output bounded to the phrase buffer)",
                  "time (scripted readings)", "alloc / free (ledger over malloc, scripted failures, dirty fill, quarantine)",
                  "libc malloc/free/time fallbacks (redirected at link time to the same simulator)", "task scheduler (real pthreads parked and released one at a time)"],
}


def sh(cmd, **kw):
    return subprocess.run(cmd, stdout=subprocess.PIPE, stderr=subprocess.STDOUT, text=True, **kw)


def load_known():
    if not os.path.exists(KNOWN):
        return []
    return json.load(open(KNOWN)).get("known", [])


def known_match(prop, cls, msg, cfg):
    for k in load_known():
        if k.get("property") != prop:
            continue
        if k.get("class") and k["class"] != cls:
            continue
        if k.get("configs") and cfg not in k["configs"]:
            continue
        if all(n in msg for n in k.get("needles", [])):
            return k
    return None


def polysim(exe, args, timeout=None):
    return sh([exe] + args + ["--data", DATA], timeout=timeout)


def parse_result(out):
    res = {"violation": None, "msg": "", "loghash": None, "log": []}
    for line in out.splitlines():
        if line.startswith("RESULT "):
            for tok in line.split()[1:]:
                k, _, v = tok.partition("=")
                if k == "violation":
                    res["violation"] = None if v == "none" else v
                if k == "loghash":
                    res["loghash"] = v
        elif line.startswith("MSG "):
            res["msg"] = line[4:]
        elif line.startswith("LOG "):
            res["log"].append(line[4:])
    return res


def replay_plan(exe, plan_path, log=False):
    r = polysim(exe, ["replay", "--plan", plan_path] + (["--log"] if log else []), timeout=600)
    return parse_result(r.stdout), r.stdout


def handle_candidate(prop, cfg, exe, plan_path, tmp, seed, lineage):
    """gate -> minimise -> gate again -> replay file. Returns ('violation', path) / ('known', entry) / ('unreproducible', info).
    lineage = (first run index, step) of the process that produced the candidate."""
    a, _ = replay_plan(exe, plan_path)
    b, _ = replay_plan(exe, plan_path)
    if (not a["violation"] or a["violation"] != b["violation"]) and lineage and open(plan_path).read().find("mode=ops") >= 0:
        # not reproducible alone: the library may have carried state over from earlier histories of the same process.
        # Replay everything that process executed as one long history; minimisation then drops what is irrelevant.
        try:
            r = int(os.path.basename(plan_path).rsplit("-", 1)[1].split(".")[0])
            first, step = lineage(r)
            cat = polysim(exe, ["concat", "--prop", prop, "--seed", str(seed), "--start", str(first), "--worker", "0", "--nworkers", str(step), "--runs", str(r), "--plan", plan_path])
            long_path = os.path.join(tmp, "long-" + os.path.basename(plan_path))
            open(long_path, "w").write(cat.stdout)
            a, _ = replay_plan(exe, long_path)
            b, _ = replay_plan(exe, long_path)
            if a["violation"] and a["violation"] == b["violation"]:
                plan_path = long_path
        except Exception as e:  # noqa
            pass
    if not a["violation"] or a["violation"] != b["violation"] or a["loghash"] != b["loghash"]:
        return ("unreproducible", "candidate %s: replays gave %s/%s and %s/%s" % (plan_path, a["violation"], a["loghash"], b["violation"], b["loghash"]))
    cls = a["violation"]
    minp = os.path.join(tmp, "min-" + os.path.basename(plan_path))
    m = polysim(exe, ["minimize", "--plan", plan_path, "--out", minp, "--budget", "60"], timeout=1800)
    use = plan_path
    mininfo = ""
    if os.path.exists(minp):
        c, _ = replay_plan(exe, minp)
        d, _ = replay_plan(exe, minp)
        if c["violation"] == cls and d["violation"] == cls and c["loghash"] == d["loghash"]:
            use = minp
            mininfo = [l for l in m.stdout.splitlines() if l.startswith("MINIMIZE")][-1:] or [""]
            mininfo = mininfo[0]
    final, _ = replay_plan(exe, use, log=True)
    plan_text = open(use).read()
    h = hashlib.sha256(plan_text.encode()).hexdigest()[:12]
    os.makedirs(REPLAYS, exist_ok=True)
    path = os.path.join(REPLAYS, "%s-%s-%s.json" % (prop, cfg, h))
    json.dump({
        "property": prop, "build_cfg": cfg, "verif_seed": seed, "class": cls, "message": final["msg"],
        "plan": plan_text.splitlines(), "original_plan_ops": sum(1 for l in open(plan_path) if l.startswith("op ")),
        "minimisation": mininfo, "log_tail": final["log"][-12:],
        "replay": "python3 tools/check.py --replay %s" % os.path.relpath(path, VERIF),
    }, open(path, "w"), indent=1)
    k = known_match(prop, cls, final["msg"], cfg)
    if k:
        return ("known", (k, path, cls, final["msg"]))
    return ("violation", (path, cls, final["msg"]))


def _scan_worker_output(prop, exe, seed, outdir, tag, rc, res):
    text = open(os.path.join(outdir, "out-%d.txt" % tag), errors="replace").read()
    last = None
    for line in text.splitlines():
        if line.startswith("START "):
            last = int(line.split()[1])
        elif line.startswith("CANDIDATE "):
            kv = dict(t.split("=", 1) for t in line.split()[1:])
            res["candidates"].append(kv["plan"])
        elif line.startswith("NONDET "):
            res["nondet"].append(line)
    if rc not in (0, 10, 2):
        # the worker died inside a run: regenerate that plan and treat it like a candidate
        if last is not None:
            pp = os.path.join(outdir, "crash-%s-%d.plan" % (prop, last))
            g = polysim(exe, ["gen", "--prop", prop, "--seed", str(seed), "--start", str(last)] + (["--fresh"] if "-fresh" in outdir else []))
            open(pp, "w").write(g.stdout)
            res["crashes"].append((pp, rc, text[-1500:]))
        else:
            res["crashes"].append((None, rc, text[-1500:]))
    wj = os.path.join(outdir, "worker-%s-%d.json" % (prop, tag))
    if os.path.exists(wj):
        try:
            res["workers"].append(json.load(open(wj)))
        except Exception:
            pass


def run_config(prop, cfg, exe, seed, budget, nworkers, tmp, runs_cap=10 ** 9, chunk=0, start=0, fresh=False):
    """chunk == 0: nworkers long-lived processes share the run indices round-robin.
    chunk > 0: a pool of short-lived processes, each executing `chunk` consecutive run indices, so that one run in
    `chunk` starts from a fresh process image (first-use effects such as lazy initialisation)."""
    outdir = os.path.join(tmp, cfg + ("-fresh" if fresh else ""))
    os.makedirs(outdir, exist_ok=True)
    res = {"candidates": [], "crashes": [], "nondet": [], "workers": []}
    extra = ["--fresh"] if fresh else []
    if chunk:
        nchunks = (runs_cap + chunk - 1) // chunk if runs_cap < 10 ** 8 else 10 ** 8
        t_end = time.time() + budget
        lock = __import__("threading").Lock()
        counter = {"next": 0}

        def pool_worker(_):
            while True:
                with lock:
                    c = counter["next"]
                    if c >= nchunks or time.time() > t_end or len(res["candidates"]) + len(res["crashes"]) >= 4:
                        return
                    counter["next"] += 1
                with open(os.path.join(outdir, "out-%d.txt" % c), "w") as log:
                    runs = min(chunk, runs_cap - c * chunk)
                    rc = subprocess.call([exe, "run", "--prop", prop, "--seed", str(seed), "--start", str(start + c * chunk), "--runs", str(runs), "--tag", str(c),
                                          "--outdir", outdir, "--data", DATA] + extra, stdout=log, stderr=subprocess.STDOUT)
                with lock:
                    _scan_worker_output(prop, exe, seed, outdir, c, rc, res)

        with ThreadPoolExecutor(nworkers) as ex:
            list(ex.map(pool_worker, range(nworkers)))
        res["fresh_processes"] = counter["next"]
        return res
    def launch(w, tag, st, runs):
        log = open(os.path.join(outdir, "out-%d.txt" % tag), "w")
        p = subprocess.Popen([exe, "run", "--prop", prop, "--seed", str(seed), "--start", str(st), "--runs", str(runs), "--worker", str(w), "--nworkers", str(nworkers),
                              "--tag", str(tag), "--budget", "%.1f" % budget, "--outdir", outdir, "--data", DATA], stdout=log, stderr=subprocess.STDOUT)
        return p, log

    procs = [(w, w, start, runs_cap) + launch(w, w, start, runs_cap) for w in range(nworkers)]
    restarts = 0
    while procs:
        w, tag, st, runs, p, log = procs.pop(0)
        try:
            rc = p.wait(timeout=budget * 6 + 600)
        except subprocess.TimeoutExpired:
            p.kill()
            rc = -9
        log.close()
        before = len(res["crashes"])
        _scan_worker_output(prop, exe, seed, outdir, tag, rc, res)
        if len(res["crashes"]) > before and restarts < 2 and len(res["crashes"]) < 2:
            # the worker died inside a run: a fresh process takes over the rest of its run indices
            pp = res["crashes"][-1][0]
            if pp:
                last = int(os.path.basename(pp).rsplit("-", 1)[1].split(".")[0])
                st2 = last + nworkers - w
                runs2 = st + runs - st2
                if runs2 > 0:
                    restarts += 1
                    procs.append((w, 1000 + restarts, st2, runs2) + launch(w, 1000 + restarts, st2, runs2))
    return res


def determinism_sample(prop, exe, seed, n, tmp):
    """the same run indices executed in separate processes at two worker counts must give identical event-log hashes"""
    maps = []
    for k, nw in enumerate((1, 4)):
        outdir = os.path.join(tmp, "det%d" % k)
        os.makedirs(outdir, exist_ok=True)
        ps = [subprocess.Popen([exe, "run", "--prop", prop, "--seed", str(seed), "--runs", str(n), "--worker", str(w), "--nworkers", str(nw), "--outdir", outdir,
                                "--data", DATA, "--no-enumerate", "--no-fills", "--twice"], stdout=subprocess.DEVNULL, stderr=subprocess.DEVNULL) for w in range(nw)]
        rcs = [p.wait() for p in ps]
        m = {}
        for f in glob.glob(os.path.join(outdir, "hashes-*.txt")):
            for line in open(f):
                r, _, h = line.strip().partition(":")
                m[int(r)] = h
        maps.append((m, rcs))
    a, b = maps[0][0], maps[1][0]
    common = sorted(set(a) & set(b))
    diff = [r for r in common if a[r] != b[r]]
    nondet_rc = any(rc == 2 for m in maps for rc in m[1])
    return {"seeds_compared": len(common), "mismatches": len(diff), "in_process_repeat_mismatch": nondet_rc, "first_mismatch": diff[:3]}


def main():
    args = sys.argv[1:]
    if args and args[0] == "--replay":
        rp = json.load(open(args[1]))
        exe = B.build(rp["build_cfg"])
        tmp = tempfile.mkdtemp(prefix="polysim-replay-")
        try:
            pp = os.path.join(tmp, "plan.txt")
            open(pp, "w").write("\n".join(rp["plan"]) + "\n")
            res, out = replay_plan(exe, pp, log=True)
            sys.stdout.write(out)
            if res["violation"]:
                print("VIOLATION property=%s replay=%s" % (rp["property"], args[1]))
                return 1
            print("replay: no violation on the current tree")
            return 0
        finally:
            shutil.rmtree(tmp, ignore_errors=True)

    prop = args[0]
    tier = os.environ.get("VERIF_TIER", "quick")
    if "--tier" in args:
        tier = args[args.index("--tier") + 1]
    seed = int(os.environ.get("VERIF_SEED", "1"))
    level, quick, thorough = PROPS[prop]
    plan = quick if tier == "quick" else thorough
    budget = float(os.environ.get("POLYSIM_BUDGET", "0" if tier == "quick" else "900"))
    nworkers = int(os.environ.get("POLYSIM_WORKERS", "16"))
    t0 = time.time()
    with ThreadPoolExecutor(4) as ex:
        exes = dict(zip([c for c, _ in plan], ex.map(B.build, [c for c, _ in plan])))
    build_s = time.time() - t0
    try:
        notes_src = json.load(open(os.path.join(os.path.dirname(list(exes.values())[0]), "build.json"))).get("source_patterns_noted", [])
    except Exception:
        notes_src = []
    race_oracle_off = any(n.endswith(": atomics") for n in notes_src)
    if race_oracle_off:
        # oracle (R) has no happens-before model for atomics: rather than risk an alarm on correct code it is switched off
        # (oracles (S) and (O) do not depend on it); the evidence says so
        os.environ["POLYSIM_NO_R"] = "1"
    tmp = tempfile.mkdtemp(prefix="polysim-%s-" % prop)
    violations, known, notes = [], [], []
    fresh = {}
    workers_all = {}
    harness_fault = None
    try:
        for cfg, share in plan:
            if violations:
                break       # the tree already violates the property: the remaining configurations add nothing to the verdict
            nw = min(nworkers, 8) if cfg == "san" else nworkers      # 8 ASan workers is the knee
            chunk = 8 if prop == "C20" else 0       # C20: one run in eight starts from a fresh process image
            # every configuration explores its own range of run indices (the deterministic sweeps at the low indices are
            # repeated in each: generators key them on the index modulo 10^6)
            start = [c for c, _ in plan].index(cfg) * 1000000
            if tier == "quick" and budget <= 0:
                res = run_config(prop, cfg, exes[cfg], seed, 240.0, nw, tmp, runs_cap=int(share), chunk=chunk, start=start)      # fixed number of runs; the time limit is a safety net only
            elif tier == "quick":
                res = run_config(prop, cfg, exes[cfg], seed, budget / len(plan), nw, tmp, chunk=chunk, start=start)               # POLYSIM_BUDGET given: time-boxed instead
            else:
                res = run_config(prop, cfg, exes[cfg], seed, budget * share, nw, tmp, chunk=chunk, start=start)
            fresh[cfg] = res.get("fresh_processes", nw)
            workers_all[cfg] = res["workers"]
            if res["nondet"]:
                harness_fault = "non-deterministic run in %s: %s" % (cfg, res["nondet"][0])
            cands = list(res["candidates"])
            for pp, rc, tail in res["crashes"]:
                if pp is None:
                    harness_fault = "worker of %s died (rc %s) before any run: %s" % (cfg, rc, tail[-400:])
                else:
                    cands.append(pp)
            seen_cls = set()
            for pp in cands[:3]:
                if violations:
                    break       # one confirmed, replayable violation decides the verdict
                if chunk:
                    lineage = lambda r, ch=chunk, st=start: (st + ((r - st) // ch) * ch, 1)
                else:
                    lineage = lambda r, n=nw, st=start: (st + (r - st) % n, n)
                kind, info = handle_candidate(prop, cfg, exes[cfg], pp, tmp, seed, lineage)
                if kind == "violation":
                    if info[1] not in seen_cls:
                        violations.append((cfg,) + info)
                        seen_cls.add(info[1])
                elif kind == "known":
                    known.append((cfg,) + info)
                else:
                    harness_fault = info
        # ---- fresh process images: plans that do not reset anything, each the first and only run of a new process
        fresh_runs = {}
        for k, (cfg, share) in enumerate(plan[:2]):
            if violations:
                break
            nfresh = (240 if cfg != "san" else 48) if tier == "quick" else (4000 if cfg != "san" else 400)
            nw = min(nworkers, 8) if cfg == "san" else nworkers
            res = run_config(prop, cfg, exes[cfg], seed, 200.0 if tier == "quick" else budget * 0.1, nw, tmp, runs_cap=nfresh, chunk=1, start=900000000 + k * 1000000, fresh=True)
            workers_all[cfg] = workers_all.get(cfg, []) + res["workers"]
            fresh_runs[cfg] = res.get("fresh_processes", 0)
            cands = list(res["candidates"]) + [pp for pp, rc, tail in res["crashes"] if pp]
            seen_cls = set()
            for pp in cands[:3]:
                kind, info = handle_candidate(prop, cfg, exes[cfg], pp, tmp, seed, None)
                if kind == "violation":
                    if info[1] not in seen_cls:
                        violations.append((cfg,) + info)
                        seen_cls.add(info[1])
                elif kind == "known":
                    known.append((cfg,) + info)
                else:
                    harness_fault = info
        det = determinism_sample(prop, exes[plan[0][0]], seed, 48 if tier == "quick" else 400, tmp)
        if det["mismatches"] or det["in_process_repeat_mismatch"]:
            harness_fault = "determinism sample failed: %s" % det
        # ---- evidence
        runs = sum(w["runs"] for ws in workers_all.values() for w in ws)
        ops = sum(w["ops"] for ws in workers_all.values() for w in ws)
        nontrivial = set()
        stats = {}
        samples = []
        per_cfg = {}
        for cfg, ws in workers_all.items():
            cs = {}
            for w in ws:
                nontrivial.update(cfg + ":" + h if prop == "C16" or prop == "C20" else h for h in w["nontrivial"])
                for k, v in w["stats"].items():
                    stats[k] = stats.get(k, 0) + v
                    cs[k] = cs.get(k, 0) + v
                if len(samples) < 3 and w["samples"]:
                    samples.append({"build_cfg": cfg, "plan": w["samples"][0].splitlines()})
            per_cfg[cfg] = {"runs": sum(w["runs"] for w in ws), "ops": sum(w["ops"] for w in ws),
                            "edge_guards_total": max([w["guards"] for w in ws] or [0]), "edge_guards_hit_max_per_worker": max([w["guards_hit"] for w in ws] or [0]),
                            "distinct_schedules": sum(w.get("schedules", 0) for w in ws), "distinct_preemption_pairs_max_per_worker": max([w.get("preemption_pairs", 0) for w in ws] or [0])}
        wall = time.time() - t0
        sim_wall = max(1e-9, wall - build_s)
        faults = {k: v for k, v in stats.items() if k.startswith("fault_") or k in ("enumerated_single_faults", "fill_differential_runs", "preemptions", "quanta")}
        statuses = {k: v for k, v in stats.items() if k.startswith("status_") or k.startswith("w2_exit_")}
        cmins = [w["clock_min"] for ws in workers_all.values() for w in ws if w.get("clock_max")]
        cmaxs = [w["clock_max"] for ws in workers_all.values() for w in ws if w.get("clock_max")]
        binfo = {}
        for cfg in exes:
            try:
                binfo[cfg] = json.load(open(os.path.join(os.path.dirname(exes[cfg]), "build.json")))
            except Exception:
                pass
        ev = {
            "property_id": prop, "tier": tier, "seed": seed, "level": level,
            "coverage": {
                "evaluations": runs,
                "distinct_nontrivial": len(nontrivial),
                "rule": "one evaluation = one simulated run: a generated history (plan) executed against the real library inside the simulator, all oracles of the property "
                        "evaluated after every operation" + ("; for C15 each history is additionally re-executed once per allocation request with exactly that request failing "
                        "(counted under faults.enumerated_single_faults, not as evaluations)" if prop == "C15" else "") +
                        ". A run is non-trivial if at least one constructor returned OK or an injected fault fired or a preemption occurred; distinct = distinct plan hashes"
                        + (" per build configuration" if prop in ("C16", "C20") else "") + "." + RULE_EXTRA.get(prop, ""),
                "samples": samples or [{"note": "no non-trivial sample recorded"}],
                "exhaustive": False,
                "simulated_runs_per_hour": int(runs / sim_wall * 3600),
                "operations_executed": ops,
                "simulated_clock_span": {"min_reading": min(cmins) if cmins else None, "max_reading": max(cmaxs) if cmaxs else None,
                                         "note": "the library has no timers; the span of scripted clock readings is reported for completeness, it is not a depth measure"},
                "faults_injected_and_effective": faults,
                "statuses_reached": statuses,
                "seam_calls": {k: v for k, v in stats.items() if k.startswith("seam_")},
                "other_counters": {k: v for k, v in stats.items() if not (k.startswith("seam_") or k.startswith("status_") or k.startswith("fault_") or k.startswith("w2_exit_"))},
                "per_build_configuration": per_cfg,
                "determinism_sample": det,
                "fresh_process_images": fresh,
                "fresh_single_run_processes": fresh_runs,
                "race_oracle_R": "off: the sources use atomics" if race_oracle_off else ("on" if prop == "C20" else "not part of this check"),
                "components": REAL_VS_STUB,
                "build_info": binfo,
                "known_findings_reported": [k[1][0].get("id", "?") for k in known],
            },
            "assumptions": [
                "sampling, not proof: the property held on the runs counted above",
                "the reference model, the pinned word-list snapshot (sim/wordlists), utf8proc and the compilers are trusted",
                "library code reaches the outside world only through the injected table and the redirected libc symbols (build_info lists anything else it references)",
            ],
            "wall_s": round(wall, 2),
            "violations": len(violations),
        }
        os.makedirs(EVIDENCE, exist_ok=True)
        json.dump(ev, open(os.path.join(EVIDENCE, prop + ".json"), "w"), indent=1)
        for cfg, (k, path, cls, msg) in [(x[0], x[1]) for x in known]:
            print("KNOWN-FINDING: property=%s %s [%s in %s] replay=%s" % (prop, k.get("what", k.get("id")), cls, cfg, os.path.relpath(path, VERIF)))
        for cfg, path, cls, msg in violations:
            print("violation in %s: %s: %s" % (cfg, cls, msg[:600]))
            print("VIOLATION property=%s replay=%s" % (prop, os.path.relpath(path, VERIF)))
        print("%s %s: %d runs, %d ops, %d distinct non-trivial plans, %.0f s (build %.0f s), determinism %d/%d equal" %
              (prop, tier, runs, ops, len(nontrivial), wall, build_s, det["seeds_compared"] - det["mismatches"], det["seeds_compared"]))
        if violations:
            return 1
        if harness_fault:
            print("HARNESS FAULT: " + harness_fault)
            return 2
        return 0
    finally:
        shutil.rmtree(tmp, ignore_errors=True)


if __name__ == "__main__":
    sys.exit(main())

#!/bin/sh
# Build /repo's current tree as shipped (no verification guard exists in the
# sources, so "guard off" is simply the normal build) and run its test suite.
set -e
T=$(mktemp -d)
trap 'rm -rf "$T"' EXIT
cmake -S /repo -B "$T/b" -G Ninja -DCMAKE_BUILD_TYPE=RelWithDebInfo >/dev/null
cmake --build "$T/b" >/dev/null
cd "$T/b" && ./polyseed-tests

#!/usr/bin/env python3
"""Sensitivity run: apply each seeded change to /repo, run the checks, undo it straight afterwards.
usage: mutants.py [--props C13,C04 | --own] [--budget S] [names...]
Writes results to seeded/RESULTS.json (which check caught which change)."""
import json, os, subprocess, sys, glob, time
VERIF = os.path.dirname(os.path.dirname(os.path.abspath(__file__)))
args = sys.argv[1:]
props = None; budget = "16"; names = []
i = 0
while i < len(args):
    if args[i] == "--props": props = args[i + 1].split(","); i += 2
    elif args[i] == "--budget": budget = args[i + 1]; i += 2
    elif args[i] == "--own": props = "own"; i += 1
    else: names.append(args[i]); i += 1
dirs = sorted(d for d in glob.glob(os.path.join(VERIF, "seeded", "*")) if os.path.isdir(d) and (not names or os.path.basename(d) in names))
respath = os.path.join(VERIF, "seeded", "RESULTS.json")
results = json.load(open(respath)) if os.path.exists(respath) else {}
assert subprocess.run(["git", "-C", "/repo", "status", "--porcelain", "--untracked-files=no"], capture_output=True, text=True).stdout.strip() == "", "/repo has local changes"
import shutil, tempfile
_evbak = tempfile.mkdtemp(prefix="evidence-bak-")
shutil.copytree(os.path.join(VERIF, "evidence"), os.path.join(_evbak, "evidence"))   # evidence files describe the unchanged tree: put them back afterwards
import atexit
def _restore():
    shutil.rmtree(os.path.join(VERIF, "evidence"), ignore_errors=True)
    shutil.copytree(os.path.join(_evbak, "evidence"), os.path.join(VERIF, "evidence"))
    shutil.rmtree(_evbak, ignore_errors=True)
atexit.register(_restore)
for d in dirs:
    name = os.path.basename(d)
    meta = json.load(open(os.path.join(d, "meta.json")))
    ALL = ["C04", "C10", "C11", "C12", "C13", "C15", "C16", "C18", "C20"]
    plist = (ALL if meta.get("benign") else [meta["breaks_property"]]) if props in (None, "own") else props
    if props is None and not meta.get("benign"):
        plist = [meta["breaks_property"], "C13"] if meta["breaks_property"] != "C13" else ["C13"]
    r = subprocess.run(["git", "-C", "/repo", "apply", os.path.join(d, "patch.diff")])
    if r.returncode != 0:
        print(name, "PATCH DOES NOT APPLY"); continue
    try:
        for p in plist:
            t0 = time.time()
            env = dict(os.environ)
            if budget != "0": env["POLYSIM_BUDGET"] = budget      # 0: the real quick tier (fixed number of runs)
            out = subprocess.run([sys.executable, os.path.join(VERIF, "tools", "check.py"), p], capture_output=True, text=True, env=env, cwd=VERIF)
            v = [l for l in out.stdout.splitlines() if l.startswith("violation in")]
            hf = [l for l in out.stdout.splitlines() if l.startswith("HARNESS FAULT")]
            print("%-6s %s -> exit %d in %.0fs %s %s" % (name, p, out.returncode, time.time() - t0, (v[0][:260] if v else ""), (hf[0][:200] if hf else "")), flush=True)
            results.setdefault(name, {})[p] = {"exit": out.returncode, "first_violation": v[0][:400] if v else None}
            # keep one replay file per (change, property) next to the change; the rest is scratch
            reps = sorted(glob.glob(os.path.join(VERIF, "replays", p + "-*.json")))
            if reps:
                os.makedirs(os.path.join(d, "replays"), exist_ok=True)
                for old in glob.glob(os.path.join(d, "replays", p + "-*.json")): os.remove(old)
                os.replace(reps[0], os.path.join(d, "replays", os.path.basename(reps[0])))
            for f in reps[1:]: os.remove(f)
    finally:
        subprocess.run(["git", "-C", "/repo", "apply", "-R", os.path.join(d, "patch.diff")])
        subprocess.run(["git", "-C", "/repo", "checkout", "--", "."])
        subprocess.run(["git", "-C", "/repo", "clean", "-fdq", "src", "include"])
    json.dump(results, open(respath, "w"), indent=1, sort_keys=True)

/* One-off extractor for the pinned word-list snapshot (sim/wordlists).
   Uses the private header on purpose: run once against the pinned commit. */
#include "polyseed.h"
#include "lang.h"
#include <stdio.h>
#include <string.h>
int main(int argc, char** argv) {
    for (int i = 0; i < polyseed_get_num_langs(); ++i) {
        const polyseed_lang* l = polyseed_get_lang(i);
        char path[512];
        snprintf(path, sizeof path, "%s/%02d.txt", argv[1], i);
        FILE* f = fopen(path, "wb");
        fprintf(f, "name_en=%s\nname=%s\nseparator_hex=", l->name_en, l->name);
        for (const unsigned char* p = (const unsigned char*)l->separator; *p; ++p) fprintf(f, "%02x", *p);
        fprintf(f, "\nis_sorted=%d\nhas_prefix=%d\nhas_accents=%d\ncompose=%d\n", l->is_sorted, l->has_prefix, l->has_accents, l->compose);
        for (int w = 0; w < POLYSEED_LANG_SIZE; ++w) fprintf(f, "%s\n", l->words[w]);
        fclose(f);
    }
    return 0;
}

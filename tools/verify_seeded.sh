#!/bin/sh
# verify_seeded.sh <dir with patch.diff and demo.c>
# Confirms in a scratch worktree: patch applies, library builds, the repository's tests pass with it
# (RelWithDebInfo and Debug), the demonstration passes without the patch and fails with it.
# DEMO_MODE=lib links the demo against the RelWithDebInfo static library (-O2, -z now) instead of the sources.
set -u
D=$(realpath "$1")
W=$(mktemp -d /tmp/seedverify-XXXXXX)
rmdir "$W"
git -C /repo worktree add -q --detach "$W" HEAD || exit 3
cleanup() { git -C /repo worktree remove --force "$W" >/dev/null 2>&1; rm -rf "$W"; }
trap cleanup EXIT
MODE=${DEMO_MODE:-src}
buildlib() { cmake -S "$W" -B "$W/$1" -G Ninja -DCMAKE_BUILD_TYPE=$2 >/dev/null 2>&1 && cmake --build "$W/$1" >/dev/null 2>&1; }
builddemo() {
  if [ "$MODE" = lib ]; then gcc -std=gnu11 -O2 -g -D_GNU_SOURCE -DPOLYSEED_STATIC -I"$W/include" "$D/demo.c" "$W/$1/libpolyseed.a" -lutf8proc -lpthread -Wl,-z,now -o "$W/demo" 2>"$W/demo.err"
  else gcc -std=gnu11 -O1 -g -D_GNU_SOURCE -DPOLYSEED_STATIC -I"$W/include" -iquote "$W/src" "$D/demo.c" "$W"/src/*.c -lutf8proc -lpthread -o "$W/demo" 2>"$W/demo.err"; fi; }
buildlib _b0 RelWithDebInfo || { echo "HEAD does not build"; exit 3; }
builddemo _b0 || { echo "demo does not build on HEAD"; head "$W/demo.err"; exit 3; }
( cd "$W" && timeout 300 ./demo >"$W/demo0.out" 2>&1 ); R0=$?
git -C "$W" apply "$D/patch.diff" || { echo "patch does not apply"; exit 3; }
buildlib _b RelWithDebInfo || { echo "patched tree does not build"; exit 3; }
( cd "$W/_b" && ./polyseed-tests >"$W/tests.out" 2>&1 ); RT=$?
buildlib _d Debug
( cd "$W/_d" && ./polyseed-tests >"$W/testsd.out" 2>&1 ); RD=$?
builddemo _b || { echo "demo does not build with patch"; exit 3; }
( cd "$W" && timeout 300 ./demo >"$W/demo1.out" 2>&1 ); R1=$?
echo "demo_without_patch=$R0 tests_with_patch=$RT tests_debug_with_patch=$RD demo_with_patch=$R1"
tail -2 "$W/demo1.out"
[ $R0 -eq 0 ] && [ $RT -eq 0 ] && [ $RD -eq 0 ] && [ $R1 -ne 0 ]

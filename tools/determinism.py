#!/usr/bin/env python3
"""One-off proof of determinism on a large sample: the same run indices executed in separate processes at several
worker counts (so every run has different predecessors in its process) must give identical event-log hashes.
usage: determinism.py [N_rel] [N_san]   -> writes determinism/REPORT.json"""
import glob, json, os, subprocess, sys, tempfile, shutil, time
HERE = os.path.dirname(os.path.abspath(__file__)); VERIF = os.path.dirname(HERE)
sys.path.insert(0, HERE)
import build as B
DATA = os.path.join(VERIF, "sim", "wordlists")
n_rel = int(sys.argv[1]) if len(sys.argv) > 1 else 4000
n_san = int(sys.argv[2]) if len(sys.argv) > 2 else 400
report = {"date": time.strftime("%Y-%m-%d"), "results": []}
for cfg, n, counts in (("rel", n_rel, (1, 3, 16)), ("san", n_san, (1, 5)), ("relpc", n_san, (1, 4))):
    exe = B.build(cfg)
    for prop in ["C04", "C10", "C11", "C12", "C13", "C15", "C16", "C18", "C20"]:
        if cfg == "relpc" and prop != "C20": continue
        maps = []
        tmp = tempfile.mkdtemp(prefix="det-")
        try:
            for k, nw in enumerate(counts):
                out = os.path.join(tmp, str(k)); os.makedirs(out)
                ps = [subprocess.Popen([exe, "run", "--prop", prop, "--seed", "1", "--runs", str(n), "--worker", str(w), "--nworkers", str(nw), "--outdir", out, "--data", DATA,
                                        "--no-enumerate", "--no-fills"], stdout=subprocess.DEVNULL, stderr=subprocess.DEVNULL) for w in range(nw)]
                [p.wait() for p in ps]
                m = {}
                for f in glob.glob(os.path.join(out, "hashes-*.txt")):
                    for line in open(f):
                        r, _, h = line.strip().partition(":"); m[int(r)] = h
                maps.append(m)
            common = set(maps[0])
            for m in maps[1:]: common &= set(m)
            bad = [r for r in sorted(common) if len({m[r] for m in maps}) != 1]
            report["results"].append({"config": cfg, "property": prop, "runs_compared": len(common), "worker_counts": list(counts), "mismatches": len(bad), "first": bad[:3]})
            print(cfg, prop, len(common), "runs,", len(bad), "mismatches", flush=True)
        finally:
            shutil.rmtree(tmp, ignore_errors=True)
os.makedirs(os.path.join(VERIF, "determinism"), exist_ok=True)
json.dump(report, open(os.path.join(VERIF, "determinism", "REPORT.json"), "w"), indent=1)
sys.exit(1 if any(r["mismatches"] for r in report["results"]) else 0)
